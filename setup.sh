#!/bin/bash
# MANIFEST.setup_cmd: build the tools and the instrumented harness once (warms the Go build cache).
cd /verif || exit 1
export GOFLAGS=-mod=mod GOPROXY=off GOSUMDB=off GOTOOLCHAIN=local
mkdir -p bin
(cd tools/vdriver && go build -o /verif/bin/vdriver .) || exit 1
(cd tools/simgen && go build -o /verif/bin/simgen .) || exit 1
bin/vdriver build || exit 1
# the -race harness used by the race-mode companions (C01R, C09R, C09SR, C17R)
bin/vdriver build --race || exit 1
