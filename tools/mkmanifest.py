#!/usr/bin/env python3
"""Generates /verif/MANIFEST.json from the table below (keeps it valid at all times)."""
import json, sys

NA_REASON_C18 = ("pure function of one string (sanitize.HTML / web.TextToHTML): no goroutine, lock, clock, stream, "
                 "file or peer is involved, so there is no schedule, delay, fault or crash to simulate; deciding it "
                 "means generating strings (property-based testing/fuzzing), not deterministic simulation (DESIGN §4 C18)")

# id -> (level, design_ref, technique, level text, level note)
CHECKS = {
 "C07": ("exploration", "DESIGN.md §4 C07",
         "deterministic simulation: seeded operation histories on the real mem and file stores (file store on a simulated disk) checked op-by-op against an executable ordered-mailbox reference model",
         "Seeded search over store operation histories; every observation of both real back-ends is compared with a small reference model after each operation, and the two back-ends against each other. Evidence, not proof: histories are sampled.",
         "Trusted: the reference model (sim/models/mailstore.go), the simulated disk (sim/simfs, differential-tested against the real os package), the instrumenter (neutrality self-test: Inbucket's own suite passes on the instrumented copy). Sequential histories only; concurrency is C09. Histories include deliveries whose source fails half-way (must be refused and change nothing)."),
 "C08": ("exploration", "DESIGN.md §4 C08",
         "deterministic simulation: seeded delivery/remove/purge histories on the real stores with cap x size limit, size-enforcer goroutine scheduled by the simulator, survivors compared with an eviction reference model after every operation",
         "Seeded search over histories and limit configurations; after every operation each mailbox must equal the eviction model (cap first, then globally oldest until the limit is met), fresh messages that fit must be retrievable, and a drift probe fills the whole capacity at the end.",
         "Trusted: eviction reference model; one client only (concurrency is C09)."),
 "C10": ("exploration", "DESIGN.md §4 C10",
         "deterministic simulation: file store on a simulated disk with 'restart' (new process state, new Store on the same tree, with or without simulated time passing) and retention scans as generated operations; reference model unchanged across restarts",
         "Seeded search over operation histories with 0..n clean restarts at arbitrary points; every observation before and after each restart must match the reference model.",
         "Trusted: reference model, simulated disk. Restart = same directory tree, new Store object, package-level process state (the message id counter) starts over as in a new process (overlay generated into the scratch copy, DESIGN §11.2), clock advanced by 0 s .. several seconds; a restart may come with a different mailbox cap; 1/30 of the histories start in a process that has already issued ~9 990 ids (counter wrap); half of the histories have a disk fault (error window, stall, or EMFILE on opens for reading) during one mutating operation, which then either succeeds completely or fails leaving the mailbox as before (or, for mark-seen/remove/purge, as after). Ids must be unique among the messages present and never reused within one process lifetime; reuse of a removed message's id across a restart is counted, not demanded (DESIGN §11.8)."),
 "C11": ("fault_enumeration", "DESIGN.md §4 C11",
         "deterministic simulation with crash injection: a crash image of the simulated disk is taken before EVERY file-system mutation step (and at partial lengths of every write call) of every mutating operation; each image is reopened and checked against the before/after reference models",
         "Crash points are enumerated exhaustively within each sampled history (every mkdir/create/write/rename/remove/rmdir step, partial writes included); histories are seeded samples. Each image must list and visit without error, keep untouched mailboxes intact with full content, show the interrupted operation as all-or-nothing, and accept a new delivery that leaves the surviving mail intact (the restarted process starts its id counter over). A second client runs concurrently, so crash images with two operations in flight are covered.",
         "Crash model = process death: completed system calls persist, nothing is reordered or lost (Inbucket never fsyncs, so power loss is out of scope). Trusted: simulated disk semantics (differential-tested against the os package)."),
 "C09": ("exploration", "DESIGN.md §4 C09",
         "deterministic simulation: concurrent client tasks on the real stores under a seeded token scheduler (every lock, channel op, FS step is a scheduling point); recorded histories checked for linearizability with porcupine against a sequential mailbox model; crash/deadlock verdicts of the scheduler; quiescence invariants when size evictions fire; race-mode companion (ThreadSanitizer on the seeded schedules) for the data-race clause",
         "Seeded search over interleavings of 2-4 clients (plus a real retention scan) on mem/file stores with and without cap/maxkb, including mailboxes sharing a lock bucket/hash directory. One seed = one exactly replayable schedule; failures are minimised and replay-verified in fresh processes.",
         "Pre-emption granularity is the instrumented operation. The 'no data race' clause is decided by the race-mode companion C09R (same workloads in a -race binary with the simulator's hand-off hidden from ThreadSanitizer and Inbucket's own synchronisation published; memory store, DESIGN §11.7). The system-level companion C09S runs SMTP, REST and POP3 actors concurrently on shared (pre-filled) mailboxes of both back-ends with an acknowledged-delivery / acknowledged-deletion oracle, and again in race mode (C09SR); REST actors also fetch messages, sources and 'latest' (200 and one whole message, or 404). At quiescence of size-limited runs everything is purged and the whole capacity must be usable (no accounting drift). Histories are bounded (<=14 ops + prefill) so porcupine stays tractable; its timeouts count as inconclusive."),
 "C16": ("exploration", "DESIGN.md §4 C16",
         "deterministic simulation: operation histories on the real stores/manager/retention scanner with observers on the public extension host; the seeded scheduler decides when every asynchronous event goroutine runs; exactly-once conservation, non-overlap and causal-order oracles at quiescence",
         "Seeded search over operation histories x limit configurations x schedules of the asynchronous event dispatch. At quiescence every id that ever was listed has exactly one stored event, exactly one deleted event iff gone (whatever removed it), no observer invocation overlaps another, stored precedes deleted, stored events of a mailbox arrive in arrival order.",
         "In a third of the runs two clients issue the operations pairwise concurrently (conservation and non-overlap clauses only; the order clauses are about sequential operations); 1/40 of the runs are a volume scenario (300 deliveries and a purge while one observer is held in its first invocation); sequential file-store histories may have a disk error or stall during one operation (which may then fail; the events must still match what really left the mailbox). One known finding (oversized delivery under maxkb: deleted precedes stored) is listed in known_findings.json and avoided in the main batch by an 'oversize' generator switch; a dedicated batch reproduces it on every run."),
 "C01": ("exploration", "DESIGN.md §4 C01",
         "deterministic simulation: whole SMTP->manager->store path on a simulated network (seeded segmentation, delay, buffers, cuts), 1-3 concurrent reply-driven clients, per-run configuration swarm; conservation oracle over ALL mailboxes at quiescence against reference naming/policy models",
         "Seeded search over SMTP dialogues x configurations x connection behaviour; what the store holds at the end must equal what the replies promised (exactly one copy per accepted, storable recipient of every 250-acknowledged transaction, nothing for refused/reset/incomplete ones, nothing in any other mailbox).",
         "Addresses restricted to the class where naming is undisputed (C04 covers the rest); cap/size limit/retention off. Disk errors (EIO/ENOSPC windows) and disk stalls (steps taking seconds) are injected while transactions are stored on the file back-end: 250 still means stored, a transaction refused after a fault may leave copies with its own recipients only. Race-mode companion C01R (same workloads in a -race binary, both back-ends) sees unsynchronised state shared between sessions in code that has no scheduling point (DESIGN §11.7). Trusted: reference naming and policy models (sim/models), simulated TCP semantics."),
 "C03": ("fault_enumeration", "DESIGN.md §4 C03",
         "deterministic simulation with fault enumeration: SMTP session vs a reference state machine line by line (exactly one well-formed reply, sequencing constraints), connection cut (FIN/RST) at enumerated byte offsets of valid dialogues, client stalls past the idle timeout; store checked afterwards",
         "Per sampled dialogue the cut offsets are enumerated (quick: 14-33 seeded offsets + both ends; thorough: every byte offset for 1/12 of the dialogues); command histories are seeded samples from a grammar including malformed, over-long and binary lines.",
         "TLS never enabled. The reference state machine constrains acceptance only in the direction the statement gives. Transfers slower than the idle timeout are outside the workload (see DESIGN observations). Command histories optionally run next to a second session delivering valid mail, or (file back-end) with a disk error or a stall (up to 1.5 idle timeouts: the timeout is about a silent client, not a slow server) while one message is stored followed by another transaction on the same connection; mode P writes a valid dialogue ahead of the replies (whole, per transaction, or up to DATA) and demands one reply per line, the same acceptance as step by step, and the acknowledged messages stored."),
 "C12": ("exploration", "DESIGN.md §4 C12",
         "deterministic simulation on a simulated clock: real RetentionScanner (DoScan and the Start/Join loop) over both real stores, racing deliveries/removals at seeded simulated instants or at the very moment of the scan, with and without cap / size limit, cancellation (after which a scan with a pause between mailboxes may touch at most two more mailboxes) at a seeded instant; recording Store wrapper gives scan windows and removals for the oracle",
         "Seeded search over age distributions around the cutoff (+-1ns, +-1s, ...), periods, sleeps, back-ends, racers and cancellation times; hours of simulated time per run cost microseconds.",
         "Message dates are those passed to AddMessage. Young-message preservation is asserted for every scanner removal; completeness for scans that finished before cancellation."),
 "C05": ("exploration", "DESIGN.md §4 C05",
         "deterministic simulation: configuration injected through the real environment path (config.Process), real SMTP server on the simulated network, dialogues hitting and just missing every list entry in all letter cases; reply classes and stored mailboxes predicted by a reference policy model with its own wildcard matcher",
         "Seeded search over the configuration space (switches, four lists, reject-origin patterns with * and ?, recipient limit) x sender/recipient domains x dialogue shapes. The decisions themselves are functions of (config, address): the simulator adds reach (whole configuration path, session-level recipient limit, every mailbox read back), not schedule power - stated here as the caveat of DESIGN §4.",
         "Local naming; syntactically valid addresses. Trusted: reference policy model written from doc/config.md and the property text."),
 "C06": ("exploration", "DESIGN.md §4 C06",
         "deterministic simulation: SMTP DATA with sizes around a per-run limit, SIZE parameter absent/truthful/understated/overstated, seeded segmentation and buffers; refuse/accept oracle with a slack band, session reuse, store read back",
         "Seeded search over limits x sizes on both sides of the limit x SIZE parameter variants x connection segmentation; bodies are streamed through small simulated buffers so the server's read loop runs through its refill path.",
         "Sizes within 512 bytes of the limit, or on different sides of it depending on whether line ends count as CRLF or LF, are unconstrained (what 'size' counts is not fixed by the statement). A third of the runs end with a message whose data is never finished (closed, reset or silent past the timeout), above or below the limit: nothing of it may be stored. Optional allow/defer listener at MAIL (a declared SIZE over the limit is refused all the same), NOOP written in the same segment as the end of the data (the session must stay in step), and a message found in another transaction's mailbox is a violation."),
 "C15": ("exploration", "DESIGN.md §4 C15",
         "deterministic simulation: real message hub, real v1/v2 WebSocket monitor handlers (gorilla server and client over simulated connections, upgrade shim in place of net/http) and harness listeners under the seeded scheduler; clients stop reading, close or reset at seeded points with events queued; per-listener sequence oracle against a history model plus a bounded-progress check of the hub",
         "Seeded search over scripts of dispatches, deletes, bursts, joins, idles and syncs x history lengths x listener kinds and fault timings x schedules (broadcast order over the listener set, select order in the writer, every channel operation is a scheduling point).",
         "net/http's accept/serve loop is replaced by a 30-line shim with the same panic recovery; the attach position of a WebSocket listener is only known as a bracket, any position in it is accepted. History length 0 (documented to disable the monitor) is not exercised."),
 "C13": ("exploration", "DESIGN.md §4 C13",
         "deterministic simulation: real POP3 server on the simulated network over both real stores; reply-driven client from a command grammar, a concurrent task changing the mailbox through the store during the session (at simulated instants, and - file back-end - at the moment the server starts committing QUIT), session ended by QUIT / FIN / RST / cut mid-command / stall past the timeout; snapshot-and-marks reference model, store compared after the session",
         "Seeded search over command sequences x mailbox contents x concurrent store changes x session endings x connection behaviour.",
         "The snapshot instant is bracketed (reference listing taken just before the accepted PASS/APOP; the other task starts after its reply). Only framing of error replies is required. TLS never enabled."),
 "C17": ("exploration", "DESIGN.md §4 C17",
         "deterministic simulation: Lua scripts generated from the handler grammar run in the real Lua host behind the real SMTP server on the simulated network, 1-4 concurrent sessions, optional Go listeners before/after 'lua'; hook-semantics reference model + policy + naming models predict reply classes, deny code/text, and the stored mailboxes/sender/recipients/subject",
         "Seeded search over scripts (any subset of the five handlers; allow/deny/defer/nil/garbage/error/rewrite answers; conditions on the session) x dialogues x policy configurations x listener order x schedules.",
         "gopher-lua is not instrumented: Lua code runs without scheduling points; sessions interleave at pool/broker locks and connection operations. That two sessions never use the same Lua state (or other Lua-host data) unordered is decided by the race-mode companion C17R: the same scripts and sessions in a -race binary, simulator hand-off hidden from ThreadSanitizer, Inbucket's synchronisation published; a report counts when both access stacks pass through pkg/extension/luahost (DESIGN §11.7)."),
 "C19": ("exploration", "DESIGN.md §4 C19",
         "deterministic simulation: the real server.FullAssembly/Services.Start (hub, web, SMTP, POP3, retention) on the simulated network, disk and clock; sessions parked in every protocol state or connecting at the last moment; a driver mirrors main.go's cancel/Drain/Drain/Join; seeded ordering of cancel, client continuation, late dials and scheduler choices",
         "Seeded search over session states at shutdown x number of sessions x cancel instants (including inside the first retention scan) x schedules. Oracle: nothing new is greeted, every session the server had accepted before the request completes normally with its message stored / deletion applied, each Drain returns only after the server side of those sessions is closed and does return, Join within one simulated second, no task panics; in a quarter of the runs the hub is inside a slow listener with its queue full and callers waiting when shutdown is requested - none may be left waiting.",
         "main.go's signal loop is replaced by a driver making the same calls in the same order (a change to that order in main.go itself is not seen); the 15 s forced exit is not modelled. Lua host disabled, TLS off."),
 "C02": ("exploration", "DESIGN.md §4 C02",
         "deterministic simulation: one adversarial message per run through the real SMTP server, manager and store on the simulated network (seeded segmentation, small buffers), read back through the store, the REST and web-UI source handlers (real router) and the real POP3 server; byte-exact oracle after CRLF->LF normalisation",
         "Seeded search over body shapes (dot lines, lone dot, bare CR/LF, NUL/8-bit, lines up to 200 KB / 3 MiB, missing final newline) x back-ends x segmentations of the SMTP and POP3 streams.",
         "A third of the runs keep the server busy (second SMTP session delivering four other messages alongside; REST, web-UI and POP3 readers fetching concurrently; a poller asking for latest/source while mail arrives; one POP3 session retrieving several messages including a 150 000-byte line after a large message); every response's Content-Length must equal its body; on the file back-end a disk error or stall may hit while the message is stored (then 250 must still mean stored byte for byte). HTTP handlers are invoked through the real router with a recording writer (no net/http server loop). A CR right before CRLF/end of data and a dot right after a bare LF are not generated (no defined expectation)."),
 "C04": ("exploration", "DESIGN.md §4 C04",
         "deterministic simulation (reach, not schedule power - see caveat): mail delivered over the real SMTP server to generated addresses in each naming mode is looked up through REST, web UI, Go client and POP3 by the address as sent, the reference model's name, the server-reported name, case-permuted and +tag variants, and deleted through POP3 (DELE+QUIT) by the last spelling tried; the per-mailbox WebSocket monitors (v1, v2) are lookup interfaces too; a refused RCPT is sent a second time; independent naming reference model",
         "Seeded search over address shapes (quoted/escaped local parts, source routes, IP literals, mixed case, '+' and '.' placement) x naming modes x lookup keys x interfaces, inside the assembled system. The naming function itself is pure; what the simulation contributes is that every interface of the running system is exercised with the same keys.",
         "naming model written from doc/config.md and the property text, not from pkg/policy. IPv6 literals are not generated."),
 "C14": ("exploration", "DESIGN.md §4 C14",
         "deterministic simulation (reach): histories mixing deliveries with list/get/source/mark-seen/delete/purge through the real router and handlers (REST, web UI) and the bundled Go client over an in-process transport that serialises and re-parses every request; both real stores; store compared with a reference model after every call; handler panics recovered and reported",
         "Seeded search over API call histories x mailbox names/ids (existing, missing, 'latest', URL-significant characters, case variants) x back-ends x base paths.",
         "net/http's server loop is not run: requests go through http.ReadRequest on their wire form and the real router. Ids with URL-significant characters are not passed to the Go client (it does not escape ids)."),
}

NOT_YET = "check under construction in this session; not claimed until it runs clean on the unchanged tree"

def main():
    checks = []
    for pid in sorted(CHECKS):
        level, ref, tech, text, note = CHECKS[pid]
        checks.append({
            "property_id": pid,
            "quick_cmd": "./check %s --tier quick" % pid,
            "thorough_cmd": "./check %s --tier thorough" % pid,
            "evidence_file": "/verif/evidence/%s.json" % pid,
            "replay_cmd_template": "./check %s --replay {path}" % pid,
            "engine": "simcheck",
            "level_claimed": {"category": level, "text": text, "design_ref": ref},
            "level_note": note,
            "technique": tech,
        })
    na = [{"property_id": "C18", "reason": NA_REASON_C18}]
    for i in range(1, 20):
        pid = "C%02d" % i
        if pid not in CHECKS and pid != "C18":
            na.append({"property_id": pid, "reason": NOT_YET})
    m = {
        "version": 1,
        "setup_cmd": "./setup.sh",
        "hooks": {
            "guard": "verif",
            "enable": "no hook lives in /repo: each check copies /repo's working tree to a scratch directory and instruments the copy at build time (tools/simgen: sync->simsync, os->simfs in pkg/storage/file, go/channel/select/map-range rewrites, net.Listen*->simnet); one overlay file is added to the copy only (pkg/storage/file/zz_verif_restart.go, //go:build verif, harness built with -tags verif): VerifProcessRestart() restarts the package-level message id counter as a new process does",
            "baseline_off_cmd": "cd /repo && go test -vet=off -count=1 ./...",
            "source_commits": [],
            "add_only": True,
        },
        "engines": [{
            "name": "simcheck",
            "path": "/verif/sim (simrt scheduler, simsync, simfs, simnet, harness, models) + /verif/tools (simgen instrumenter, vdriver)",
            "serves_properties": sorted(CHECKS),
            "kind_free_text": "deterministic simulation with fault injection: token scheduler on testing/synctest (Go 1.26.8), seeded choice streams, record/replay/minimise, reference-model oracles",
        }],
        "checks": checks,
        "not_applicable": na,
        "notes": "Exit codes: 0 held, 1 VIOLATION (replayable, unlisted), 2 could not decide. Known findings: /verif/known_findings.json. Replay: ./check <id> --replay <file>.",
    }
    json.dump(m, open("/verif/MANIFEST.json", "w"), indent=1)
    print("MANIFEST.json: %d checks, %d not_applicable" % (len(checks), len(na)))

if __name__ == "__main__":
    main()
