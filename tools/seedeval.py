#!/usr/bin/env python3
"""Confirm an independently written property-breaking change and run the checks against it.

usage: tools/seedeval.py <prop> <n> <srcdir> [check ids ...]

<srcdir> holds mut<n>.diff, mut<n>_demo_test.go, mut<n>.md (written by a sub-agent in its own
worktree).  Steps:
  1. fresh scratch worktree of /repo HEAD under /tmp: apply the patch, build, run the whole
     existing suite (must pass), run the demonstration (must fail); revert the patch, run the
     demonstration again (must pass).  The worktree is removed afterwards.
  2. apply the patch to /repo itself, run the given checks (default: the property's own) in the
     quick tier, revert /repo.
  3. record everything under /verif/seeded/<prop>-<n>/ (patch.diff, demo, notes, meta.json).
"""
import json, os, re, shutil, subprocess, sys, time

ENV = dict(os.environ, GOFLAGS="-mod=mod", GOPROXY="off", GOSUMDB="off", GOTOOLCHAIN="local")

def sh(cmd, cwd=None, timeout=1800):
    r = subprocess.run(cmd, shell=True, cwd=cwd, env=ENV, capture_output=True, text=True, timeout=timeout)
    return r.returncode, (r.stdout + r.stderr)

def main():
    prop, n, src = sys.argv[1], sys.argv[2], sys.argv[3]
    checks = sys.argv[4:] or [prop]
    patch = os.path.join(src, "mut%s.diff" % n)
    demo = os.path.join(src, "mut%s_demo_test.go" % n)
    notes = os.path.join(src, "mut%s.md" % n)
    meta = {"property": prop, "n": int(n), "source": "independent sub-agent given only the property text and a scratch worktree",
            "base_commit": sh("git -C /repo rev-parse --short HEAD")[1].strip()}
    first = open(demo).readline()
    m = re.search(r"place in:\s*(\S+)", first)
    if not m:
        print("demo has no 'place in:' line"); sys.exit(2)
    pkgdir = m.group(1).rstrip("/")
    meta["demo_package"] = pkgdir
    wt = "/tmp/seedeval-%s-%s" % (prop, n)
    sh("git -C /repo worktree remove --force %s" % wt)
    rc, out = sh("git -C /repo worktree add --detach %s HEAD" % wt)
    if rc != 0:
        print(out); sys.exit(2)
    try:
        rc, out = sh("git apply %s" % patch, cwd=wt)
        meta["patch_applies"] = rc == 0
        if rc != 0:
            print("patch does not apply:", out); sys.exit(2)
        rc, out = sh("go build ./...", cwd=wt)
        meta["builds"] = rc == 0
        for attempt in range(4):
            rc, out = sh("go test -vet=off -count=1 ./... 2>&1 | grep -v 'no test files' | grep -v '^ok' | head -40", cwd=wt)
            if "address already in use" not in out:
                break
            time.sleep(20)  # the integration test binds fixed ports; someone else was using them
        meta["suite_passes_with_change"] = out.strip() == ""
        if out.strip():
            meta["suite_output"] = out[-1500:]
        shutil.copy(demo, os.path.join(wt, pkgdir, "zz_seeded_demo_test.go"))
        rc, out = sh("go test -vet=off -count=1 ./%s/ 2>&1 | tail -15" % pkgdir, cwd=wt, timeout=600)
        meta["demo_fails_with_change"] = ("FAIL" in out)
        meta["demo_output_with_change"] = out[-1200:]
        sh("git apply -R %s" % patch, cwd=wt)
        rc, out = sh("go test -vet=off -count=1 ./%s/ 2>&1 | tail -5" % pkgdir, cwd=wt, timeout=600)
        meta["demo_passes_without_change"] = ("FAIL" not in out and "ok" in out)
    finally:
        sh("git -C /repo worktree remove --force %s" % wt)
    confirmed = all(meta.get(k) for k in ("builds", "suite_passes_with_change", "demo_fails_with_change", "demo_passes_without_change"))
    meta["confirmed"] = confirmed
    print(json.dumps({k: v for k, v in meta.items() if not k.endswith("output")}, indent=1))
    if not confirmed:
        print("NOT CONFIRMED - not kept");
    # run the checks against the change: by default on /repo itself (apply, run, revert); with
    # SEEDEVAL_WORKTREE=1 on a separate worktree of /repo HEAD through VERIF_REPO_DIR, so that a
    # long background run using /repo is not disturbed
    target = "/repo"
    envx = ""
    if os.environ.get("SEEDEVAL_WORKTREE"):
        target = "/tmp/seedrepo-%s-%s" % (prop, n)
        sh("git -C /repo worktree remove --force %s" % target)
        rc, out = sh("git -C /repo worktree add --detach %s HEAD" % target)
        assert rc == 0, out
        os.makedirs("/var/tmp/seedout", exist_ok=True)
        envx = "VERIF_REPO_DIR=%s VERIF_OUT_DIR=/var/tmp/seedout " % target
    assert sh("git -C %s status --porcelain" % target)[1].strip() == "", target + " is dirty"
    results = {}
    rc, out = sh("git -C %s apply %s" % (target, patch))
    try:
        for cid in checks:
            t0 = time.time()
            rc, out = sh(envx + "/verif/check %s" % cid + os.environ.get("SEEDEVAL_CHECK_ARGS", ""), timeout=3600)
            classes = re.findall(r"class: (\S.*)", out)
            results[cid] = {"exit": rc, "classes": classes, "wall_s": round(time.time() - t0, 1),
                            "summary": [l for l in out.splitlines() if l.startswith("vdriver: C")][-1:]}
            print(cid, "exit", rc, classes[:4])
    finally:
        if target == "/repo":
            sh("git -C /repo checkout -- .")
            sh("cd /verif && git status --porcelain replays | grep '^??' | cut -c4- | xargs -r rm -f")
            sh("cd /verif && git checkout -- evidence replays 2>/dev/null")
        else:
            sh("git -C /repo worktree remove --force %s" % target)
    meta["checks_run_on"] = target if target == "/repo" else "worktree of /repo HEAD (VERIF_REPO_DIR)"
    dst = "/verif/seeded/%s-%s" % (prop, n)
    os.makedirs(dst, exist_ok=True)
    prev = os.path.join(dst, "meta.json")
    if os.path.exists(prev) and os.environ.get("SEEDEVAL_RERUN"):
        # keep the first evaluation; record this one as the result after the checks were strengthened
        old = json.load(open(prev))
        old["after_strengthening"] = {"verif_commit": sh("git -C /verif rev-parse --short HEAD")[1].strip(), "checks_run_quick_tier": results,
                                      "caught_by": [c for c, r in results.items() if r["exit"] == 1]}
        json.dump(old, open(prev, "w"), indent=1)
        print("after strengthening caught by:", old["after_strengthening"]["caught_by"] or "NOTHING")
        return
    meta["checks_run_quick_tier"] = results
    meta["caught_by"] = [c for c, r in results.items() if r["exit"] == 1]
    shutil.copy(patch, os.path.join(dst, "patch.diff"))
    shutil.copy(demo, os.path.join(dst, "demo_test.go"))
    if os.path.exists(notes):
        shutil.copy(notes, os.path.join(dst, "notes.md"))
    json.dump(meta, open(os.path.join(dst, "meta.json"), "w"), indent=1)
    print("caught by:", meta["caught_by"] or "NOTHING")

if __name__ == "__main__":
    main()
