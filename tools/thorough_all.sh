#!/bin/bash
# Run the thorough tier of every claimed check once (used with `vp run`); VERIF_SEED selects the base seed.
cd "$(dirname "$0")/.." || exit 2
for p in C09 C11 C15 C16 C19 C03 C01 C02 C04 C05 C06 C07 C08 C10 C12 C13 C14 C17; do
  echo "=== $p thorough seed=${VERIF_SEED:-1} $(date +%T)"
  ./check $p --tier thorough 2>&1 | grep "vdriver: C\|VIOLATION\|KNOWN\|NONREPL\|could not\|class:" | cut -c1-260
done
echo "=== done $(date +%T)"
