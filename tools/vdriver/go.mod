module verif/tools/vdriver

go 1.21
