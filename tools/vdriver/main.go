// vdriver is the front end of every registered check:
//
//	vdriver check <id> [--tier quick|thorough] [--seed N] [--replay file] [--race]
//	vdriver build            (setup: warm caches, build tools and the harness)
//	vdriver selftest ...     (determinism / neutrality self-tests)
//
// Exit 0: property held on everything explored (KNOWN-FINDING lines allowed).
// Exit 1: "VIOLATION property=<id> replay=<path>" for an unlisted, replayable violation.
// Exit 2: could not decide (build/instrumentation failure, watchdog, non-replayable failure).
package main

import (
	"bytes"
	"crypto/sha256"
	"encoding/hex"
	"encoding/json"
	"fmt"
	"io"
	"os"
	"os/exec"
	"path/filepath"
	"regexp"
	"sort"
	"strconv"
	"strings"
	"sync"
	"time"
)

const (
	verifDir = "/verif"
	goNew    = "go1.26.8"
)

// Development overrides (never used by registered checks): an alternative
// simulator/harness source tree, output directory and repository.
var (
	repoDir = envOr("VERIF_REPO_DIR", "/repo")
	simDir  = envOr("VERIF_SIM_DIR", filepath.Join(verifDir, "sim"))
	outDir  = envOr("VERIF_OUT_DIR", verifDir)
)

func envOr(k, d string) string {
	if v := os.Getenv(k); v != "" {
		return v
	}
	return d
}

func die(code int, format string, a ...interface{}) {
	fmt.Fprintf(os.Stderr, "vdriver: "+format+"\n", a...)
	os.Exit(code)
}

func goEnv() []string {
	env := os.Environ()
	env = append(env, "GOFLAGS=-mod=mod", "GOPROXY=off", "GOSUMDB=off", "GOTOOLCHAIN=local", "GONOSUMDB=*", "GONOSUMCHECK=1")
	return env
}

func run(dir string, env []string, name string, args ...string) (string, error) {
	cmd := exec.Command(name, args...)
	cmd.Dir = dir
	cmd.Env = env
	var buf bytes.Buffer
	cmd.Stdout = &buf
	cmd.Stderr = &buf
	err := cmd.Run()
	return buf.String(), err
}

// ---------- build ----------

func hashTree(h io.Writer, root string, rels ...string) {
	var files []string
	for _, rel := range rels {
		p := filepath.Join(root, rel)
		fi, err := os.Stat(p)
		if err != nil {
			continue
		}
		if !fi.IsDir() {
			files = append(files, p)
			continue
		}
		filepath.Walk(p, func(path string, info os.FileInfo, err error) error {
			if err != nil {
				return nil
			}
			if info.IsDir() {
				if info.Name() == "testdata" || info.Name() == "node_modules" || info.Name() == ".git" {
					return filepath.SkipDir
				}
				return nil
			}
			if strings.HasSuffix(path, ".go") || strings.HasSuffix(path, ".mod") || strings.HasSuffix(path, ".sum") {
				files = append(files, path)
			}
			return nil
		})
	}
	sort.Strings(files)
	for _, f := range files {
		b, err := os.ReadFile(f)
		if err != nil {
			continue
		}
		s := sha256.Sum256(b)
		fmt.Fprintf(h, "%s %x\n", strings.TrimPrefix(f, root), s)
	}
}

func ensureSimgen() string {
	bin := filepath.Join(verifDir, "bin", "simgen")
	src := filepath.Join(verifDir, "tools", "simgen", "main.go")
	bi, berr := os.Stat(bin)
	si, _ := os.Stat(src)
	if berr == nil && si != nil && !si.ModTime().After(bi.ModTime()) {
		return bin
	}
	os.MkdirAll(filepath.Dir(bin), 0o755)
	out, err := run(filepath.Join(verifDir, "tools", "simgen"), goEnv(), "go", "build", "-o", bin, ".")
	if err != nil {
		die(2, "building simgen failed: %v\n%s", err, out)
	}
	return bin
}

func copyTree(src, dst string) error {
	return filepath.Walk(src, func(path string, info os.FileInfo, err error) error {
		if err != nil {
			return err
		}
		rel, _ := filepath.Rel(src, path)
		target := filepath.Join(dst, rel)
		if info.IsDir() {
			return os.MkdirAll(target, 0o755)
		}
		if !info.Mode().IsRegular() {
			return nil
		}
		b, err := os.ReadFile(path)
		if err != nil {
			return err
		}
		return os.WriteFile(target, b, 0o644)
	})
}

// buildHarness returns the path of a harness binary built from the current
// /repo working tree and /verif/sim (cached by content hash).
func buildHarness(race bool) string {
	simgen := ensureSimgen()
	h := sha256.New()
	hashTree(h, repoDir, "go.mod", "go.sum", "cmd", "pkg")
	hashTree(h, simDir, ".")
	if b, err := os.ReadFile(simgen); err == nil {
		s := sha256.Sum256(b)
		fmt.Fprintf(h, "simgen %x\n", s)
	}
	fmt.Fprintf(h, "race=%v go=%s\n", race, goNew)
	key := hex.EncodeToString(h.Sum(nil))[:24]
	cacheDir := filepath.Join(verifDir, ".cache", "build")
	bin := filepath.Join(cacheDir, key, "simcheck.test")
	if _, err := os.Stat(bin); err == nil {
		now := time.Now()
		os.Chtimes(filepath.Join(cacheDir, key), now, now)
		return bin
	}
	start := time.Now()
	scratch, err := os.MkdirTemp("/var/tmp", "verif-build-")
	if err != nil {
		die(2, "mktemp: %v", err)
	}
	defer os.RemoveAll(scratch)
	for _, rel := range []string{"go.mod", "go.sum", "cmd", "pkg"} {
		src := filepath.Join(repoDir, rel)
		fi, err := os.Stat(src)
		if err != nil {
			die(2, "copy %s: %v", rel, err)
		}
		if fi.IsDir() {
			err = copyTree(src, filepath.Join(scratch, rel))
		} else {
			var b []byte
			if b, err = os.ReadFile(src); err == nil {
				err = os.WriteFile(filepath.Join(scratch, rel), b, 0o644)
			}
		}
		if err != nil {
			die(2, "copy %s: %v", rel, err)
		}
	}
	if err := copyTree(simDir, filepath.Join(scratch, "vsim")); err != nil {
		die(2, "copy sim: %v", err)
	}
	// extra module requirements of the harness (porcupine)
	if extra, err := os.ReadFile(filepath.Join(simDir, "go.sum.extra")); err == nil {
		f, _ := os.OpenFile(filepath.Join(scratch, "go.sum"), os.O_APPEND|os.O_WRONLY, 0o644)
		f.Write(extra)
		f.Close()
	}
	if out, err := run(scratch, goEnv(), goNew, "mod", "edit", "-require=github.com/anishathalye/porcupine@v1.3.0"); err != nil {
		die(2, "go mod edit failed: %v\n%s", err, out)
	}
	out, err := run(scratch, goEnv(), simgen, "-dir", scratch, "-report", filepath.Join(scratch, "simgen.json"), "./pkg/...", "./cmd/...")
	if err != nil {
		die(2, "instrumentation failed: %v\n%s", err, out)
	}
	args := []string{"test", "-c", "-trimpath", "-tags", "verif", "-o", filepath.Join(scratch, "simcheck.test")}
	if race {
		args = append(args, "-race")
	}
	args = append(args, "./vsim/harness")
	out, err = run(scratch, goEnv(), goNew, args...)
	if err != nil {
		die(2, "harness build failed: %v\n%s", err, out)
	}
	os.MkdirAll(filepath.Join(cacheDir, key), 0o755)
	b, err := os.ReadFile(filepath.Join(scratch, "simcheck.test"))
	if err != nil {
		die(2, "read binary: %v", err)
	}
	if err := os.WriteFile(bin, b, 0o755); err != nil {
		die(2, "cache binary: %v", err)
	}
	if rep, err := os.ReadFile(filepath.Join(scratch, "simgen.json")); err == nil {
		os.WriteFile(filepath.Join(cacheDir, key, "simgen.json"), rep, 0o644)
	}
	pruneCache(cacheDir, 6)
	fmt.Printf("vdriver: built harness (%s) in %.1fs\n", key, time.Since(start).Seconds())
	return bin
}

// pinBinary gives the caller its own name for a cached harness binary (a hard
// link, or a copy if linking is not possible), so that cache pruning by a
// concurrently running check cannot remove it while it is in use.
func pinBinary(bin, dir string) string {
	dst := filepath.Join(dir, fmt.Sprintf("pinned-%d-%s", time.Now().UnixNano(), filepath.Base(bin)))
	if err := os.Link(bin, dst); err == nil {
		return dst
	}
	b, err := os.ReadFile(bin)
	if err != nil {
		die(2, "harness binary vanished: %v", err)
	}
	if err := os.WriteFile(dst, b, 0o755); err != nil {
		die(2, "cannot pin harness binary: %v", err)
	}
	return dst
}

func pruneCache(dir string, keep int) {
	ents, err := os.ReadDir(dir)
	if err != nil {
		return
	}
	type e struct {
		name string
		t    time.Time
	}
	var l []e
	for _, d := range ents {
		if fi, err := d.Info(); err == nil {
			l = append(l, e{d.Name(), fi.ModTime()})
		}
	}
	sort.Slice(l, func(i, j int) bool { return l[i].t.After(l[j].t) })
	for i := keep; i < len(l); i++ {
		if time.Since(l[i].t) < 2*time.Hour && i < 4*keep {
			continue // possibly in use by a concurrent check
		}
		os.RemoveAll(filepath.Join(dir, l[i].name))
	}
}

// ---------- data ----------

type propInfo struct {
	ID, Level, Rule         string
	QuickRuns, ThoroughRuns int
	Real, Stub, Assumptions []string
	BudgetIsViolation       bool
	RaceMode                bool
	RaceCompanion           string
	Companions              []string
	EvalCounter             string
}

type failure struct {
	Property string          `json:"property"`
	Tier     string          `json:"tier"`
	Seed     uint64          `json:"seed"`
	Run      int             `json:"run"`
	Class    string          `json:"class"`
	Msg      string          `json:"msg"`
	Avoid    string          `json:"avoid"`
	LogHash  string          `json:"log_hash"`
	MinInfo  string          `json:"minimised,omitempty"`
	Raw      json.RawMessage `json:"-"`
}

type stats struct {
	Runs       int                 `json:"runs"`
	Steps      int64               `json:"steps"`
	SimTimeNs  int64               `json:"sim_time_ns"`
	Decisions2 int64               `json:"decisions_ge2_ready"`
	Counters   map[string]int64    `json:"counters"`
	Sets       map[string][]uint64 `json:"sets"`
	Samples    [][]string          `json:"samples"`
	Verdicts   map[string]int      `json:"verdicts"`
	Inconcl    int                 `json:"inconclusive"`
	WallNs     int64               `json:"wall_ns"`
}

type workerOut struct {
	Done      int               `json:"done"`
	Stats     stats             `json:"stats"`
	Failures  []json.RawMessage `json:"failures"`
	FailCount map[string]int    `json:"fail_count"`
	RunHashes map[int]string    `json:"run_hashes"`
}

type knownFinding struct {
	Property    string `json:"property"`
	Class       string `json:"class"`
	Status      string `json:"status"` // known | fixed
	Commit      string `json:"commit,omitempty"`
	Description string `json:"description"`
	Avoid       string `json:"avoid,omitempty"`
	Replay      string `json:"replay,omitempty"`
}

func loadKnown() []knownFinding {
	b, err := os.ReadFile(filepath.Join(verifDir, "known_findings.json"))
	if err != nil {
		return nil
	}
	var f struct {
		Findings []knownFinding `json:"findings"`
	}
	if err := json.Unmarshal(b, &f); err != nil {
		die(2, "known_findings.json: %v", err)
	}
	return f.Findings
}

// ---------- check ----------

type batch struct {
	name  string
	from  int
	to    int
	avoid string
	prop  string // property the workers run (the check's own, or its race-mode companion)
	bin   string
	race  bool
}

type agg struct {
	runs      int
	st        stats
	sets      map[string]map[uint64]struct{}
	failCount map[string]int
	firstFail map[string]json.RawMessage
	firstRun  map[string]int
}

func newAgg() *agg {
	return &agg{sets: map[string]map[uint64]struct{}{}, failCount: map[string]int{}, firstFail: map[string]json.RawMessage{}, firstRun: map[string]int{},
		st: stats{Counters: map[string]int64{}, Verdicts: map[string]int{}}}
}

func (a *agg) add(w *workerOut) {
	a.runs += w.Done
	a.st.Runs += w.Stats.Runs
	a.st.Steps += w.Stats.Steps
	a.st.SimTimeNs += w.Stats.SimTimeNs
	a.st.Decisions2 += w.Stats.Decisions2
	a.st.Inconcl += w.Stats.Inconcl
	a.st.WallNs += w.Stats.WallNs
	for k, v := range w.Stats.Counters {
		a.st.Counters[k] += v
	}
	for k, v := range w.Stats.Verdicts {
		a.st.Verdicts[k] += v
	}
	for k, l := range w.Stats.Sets {
		m := a.sets[k]
		if m == nil {
			m = map[uint64]struct{}{}
			a.sets[k] = m
		}
		for _, h := range l {
			m[h] = struct{}{}
		}
	}
	if len(a.st.Samples) < 4 {
		for _, s := range w.Stats.Samples {
			if len(a.st.Samples) < 4 {
				a.st.Samples = append(a.st.Samples, s)
			}
		}
	}
	for k, v := range w.FailCount {
		a.failCount[k] += v
	}
	for _, raw := range w.Failures {
		var f failure
		json.Unmarshal(raw, &f)
		if old, ok := a.firstRun[f.Class]; !ok || f.Run < old {
			a.firstRun[f.Class] = f.Run
			a.firstFail[f.Class] = raw
		}
	}
}

func slug(s string) string {
	s = regexp.MustCompile(`[^A-Za-z0-9]+`).ReplaceAllString(s, "-")
	s = strings.Trim(s, "-")
	if len(s) > 70 {
		s = s[:70]
	}
	return s
}

var workerProcs = "2"

func raceEnv(tmp string) []string {
	return []string{"GORACE=halt_on_error=0 log_path=" + filepath.Join(tmp, "tsan")}
}

func runWorker(bin string, tmp string, idx int, args []string, timeout time.Duration, race ...bool) (*workerOut, error) {
	workerEnv := []string(nil)
	if len(race) > 0 && race[0] {
		workerEnv = raceEnv(tmp)
	}
	out := filepath.Join(tmp, fmt.Sprintf("w%d.json", idx))
	full := append([]string{"-test.run", "^TestSim$", "-test.timeout", "0", "-out", out}, args...)
	cmd := exec.Command(bin, full...)
	cmd.Env = append(append(os.Environ(), "GOMAXPROCS="+workerProcs, "GODEBUG=asynctimerchan=0"), workerEnv...)
	var buf bytes.Buffer
	cmd.Stdout = &buf
	cmd.Stderr = &buf
	if err := cmd.Start(); err != nil {
		return nil, err
	}
	done := make(chan error, 1)
	go func() { done <- cmd.Wait() }()
	select {
	case err := <-done:
		if _, serr := os.Stat(out); err != nil && (serr != nil || len(workerEnv) == 0) {
			// (a -race binary marks the test failed on any report, also on ignored ones
			// about the harness; its result file is what counts)
			return nil, fmt.Errorf("worker failed: %v\n%s", err, lastLines(buf.String(), 60))
		}
	case <-time.After(timeout):
		cmd.Process.Kill()
		<-done
		return nil, fmt.Errorf("worker watchdog (%v) expired: args %v\n%s", timeout, args, lastLines(buf.String(), 30))
	}
	b, err := os.ReadFile(out)
	if err != nil {
		return nil, fmt.Errorf("worker wrote no result: %v\n%s", err, lastLines(buf.String(), 60))
	}
	os.Remove(out)
	var w workerOut
	if err := json.Unmarshal(b, &w); err != nil {
		return nil, err
	}
	return &w, nil
}

func lastLines(s string, n int) string {
	l := strings.Split(strings.TrimRight(s, "\n"), "\n")
	if len(l) > n {
		l = l[len(l)-n:]
	}
	return strings.Join(l, "\n")
}

func listProps(bin, tmp string) map[string]propInfo {
	out := filepath.Join(tmp, "props.json")
	cmd := exec.Command(bin, "-test.run", "^TestSim$", "-list", "-out", out)
	cmd.Env = append(os.Environ(), "GODEBUG=asynctimerchan=0")
	if b, err := cmd.CombinedOutput(); err != nil {
		die(2, "listing properties failed: %v\n%s", err, b)
	}
	b, _ := os.ReadFile(out)
	var l []propInfo
	if err := json.Unmarshal(b, &l); err != nil {
		die(2, "props.json: %v", err)
	}
	m := map[string]propInfo{}
	for _, p := range l {
		m[p.ID] = p
	}
	return m
}

func cmdCheck(args []string) {
	if len(args) < 1 {
		die(2, "usage: vdriver check <id> [--tier t] [--seed n] [--replay f] [--runs n] [--race]")
	}
	id := args[0]
	tier := os.Getenv("VERIF_TIER")
	if tier == "" {
		tier = "quick"
	}
	seed := uint64(1)
	if s := os.Getenv("VERIF_SEED"); s != "" {
		if v, err := strconv.ParseUint(s, 10, 64); err == nil {
			seed = v
		} else if v, err := strconv.ParseInt(s, 10, 64); err == nil {
			seed = uint64(v)
		}
	}
	replay := ""
	runsOverride := 0
	race := false
	wallCap := time.Duration(0)
	for i := 1; i < len(args); i++ {
		switch args[i] {
		case "--tier":
			i++
			tier = args[i]
		case "--seed":
			i++
			v, _ := strconv.ParseUint(args[i], 10, 64)
			seed = v
		case "--replay":
			i++
			replay = args[i]
		case "--runs":
			i++
			runsOverride, _ = strconv.Atoi(args[i])
		case "--race":
			race = true
		case "--wall":
			i++
			d, _ := time.ParseDuration(args[i])
			wallCap = d
		default:
			die(2, "unknown argument %q", args[i])
		}
	}
	if tier != "quick" && tier != "thorough" {
		die(2, "tier must be quick or thorough")
	}
	start := time.Now()
	tmp, err := os.MkdirTemp("/var/tmp", "verif-run-")
	if err != nil {
		die(2, "mktemp: %v", err)
	}
	defer os.RemoveAll(tmp)
	bin := pinBinary(buildHarness(race), tmp)
	props := listProps(bin, tmp)
	p, ok := props[id]
	if !ok {
		die(2, "property %s has no check in the harness", id)
	}
	if replay != "" {
		os.Exit(doReplay(bin, tmp, id, replay))
	}
	known := loadKnown()
	var knownHere []knownFinding
	avoidSet := map[string]bool{}
	for _, k := range known {
		if k.Property == id && k.Status == "known" {
			knownHere = append(knownHere, k)
			for _, a := range strings.Split(k.Avoid, ",") {
				if a = strings.TrimSpace(a); a != "" {
					avoidSet[a] = true
				}
			}
		}
	}
	var avoidList []string
	for a := range avoidSet {
		avoidList = append(avoidList, a)
	}
	sort.Strings(avoidList)
	avoid := strings.Join(avoidList, ",")

	total := p.QuickRuns
	if tier == "thorough" {
		total = p.ThoroughRuns
	}
	if runsOverride > 0 {
		total = runsOverride
	}
	if wallCap == 0 {
		wallCap = 150 * time.Second
		if tier == "thorough" {
			wallCap = 25 * time.Minute
		}
	}
	// batches: main (with avoid switches of known findings) and, when there are
	// known findings, a dedicated batch without them.
	batches := []batch{{name: "main", from: 0, to: total, avoid: avoid, prop: id, bin: bin, race: race}}
	if avoid != "" {
		n := total / 8
		if n < 200 {
			n = 200
		}
		batches = append(batches, batch{name: "known-findings", from: 1 << 24, to: 1<<24 + n, avoid: "", prop: id, bin: bin, race: race})
	}
	// companions: further harnesses for clauses of the same statement, same binary
	if runsOverride == 0 {
		for ci, comp := range p.Companions {
			if cp, ok := props[comp]; ok {
				n := cp.QuickRuns
				if tier == "thorough" {
					n = cp.ThoroughRuns
				}
				base := 1<<26 + ci<<22
				batches = append(batches, batch{name: comp, from: base, to: base + n, avoid: avoid, prop: comp, bin: bin, race: race})
			}
		}
	}
	// race-mode companion (the "no data race" clause): same workloads in a -race binary
	raceBin := ""
	var raceComps []string // RaceCompanion may name several, separated by commas
	for _, rc := range strings.Split(p.RaceCompanion, ",") {
		if rc = strings.TrimSpace(rc); rc != "" {
			raceComps = append(raceComps, rc)
		}
	}
	if len(raceComps) > 0 && runsOverride == 0 {
		raceBin = pinBinary(buildHarness(true), tmp)
		rprops := listProps(raceBin, tmp)
		for ri, rc := range raceComps {
			if cp, ok := rprops[rc]; ok {
				n := cp.QuickRuns
				if tier == "thorough" {
					n = cp.ThoroughRuns
				}
				base := 1<<25 + ri<<21
				name := "race"
				if ri > 0 {
					name = "race:" + rc
				}
				batches = append(batches, batch{name: name, from: base, to: base + n, avoid: avoid, prop: rc, bin: raceBin, race: true})
			}
		}
	}
	binFor := func(class string) (string, string, bool) {
		for _, rc := range raceComps {
			if strings.HasPrefix(class, rc+"/") {
				return raceBin, rc, true
			}
		}
		for _, comp := range p.Companions {
			if strings.HasPrefix(class, comp+"/") {
				return bin, comp, race
			}
		}
		return bin, id, race
	}
	type job struct {
		b        batch
		from, to int
	}
	slice := 250
	if total/slice < 32 {
		slice = total / 32
		if slice < 10 {
			slice = 10
		}
	}
	var jobs []job
	for _, b := range batches {
		sl := slice
		if b.race && sl > 40 {
			// short batches: a data-race replay re-executes the batch up to the reporting run
			sl = 40
		}
		for f := b.from; f < b.to; f += sl {
			t := f + sl
			if t > b.to {
				t = b.to
			}
			jobs = append(jobs, job{b, f, t})
		}
	}
	ag := newAgg()
	batchRuns := map[string]int{}
	var mu sync.Mutex
	var werr error
	jobCh := make(chan int)
	var wg sync.WaitGroup
	nw := 16
	if v := os.Getenv("VERIF_WORKERS"); v != "" {
		nw, _ = strconv.Atoi(v)
	}
	deadline := start.Add(wallCap)
	skipped := 0
	for w := 0; w < nw; w++ {
		wg.Add(1)
		go func() {
			defer wg.Done()
			for ji := range jobCh {
				j := jobs[ji]
				mu.Lock()
				stop := werr != nil || len(ag.failCount) >= 8
				mu.Unlock()
				if stop || time.Now().After(deadline) {
					mu.Lock()
					skipped += j.to - j.from
					mu.Unlock()
					continue
				}
				remain := time.Until(deadline)
				wa := []string{"-prop", j.b.prop, "-tier", tier, "-seed", strconv.FormatUint(seed, 10), "-from", strconv.Itoa(j.from), "-to", strconv.Itoa(j.to),
					"-budget-ms", strconv.Itoa(int(remain / time.Millisecond)), "-avoid", j.b.avoid}
				wo, err := runWorker(j.b.bin, tmp, ji, wa, remain+8*time.Minute, j.b.race)
				mu.Lock()
				if err != nil {
					if werr == nil {
						werr = err
					}
				} else {
					ag.add(wo)
					batchRuns[j.b.name] += wo.Done
					skipped += (j.to - j.from) - wo.Done
				}
				mu.Unlock()
			}
		}()
	}
	for i := range jobs {
		jobCh <- i
	}
	close(jobCh)
	wg.Wait()
	if werr != nil {
		fmt.Println("vdriver: could not decide:", werr)
		os.Exit(2)
	}
	if ag.runs == 0 {
		die(2, "no run was executed")
	}

	// triage failures
	exit := 0
	var classes []string
	for c := range ag.firstFail {
		classes = append(classes, c)
	}
	sort.Strings(classes)
	unlisted := 0
	minimised := 0
	for _, c := range classes {
		if k := matchKnown(knownHere, c); k != nil {
			fmt.Printf("KNOWN-FINDING: property=%s %s — %s (seen %d times in this run)\n", id, c, k.Description, ag.failCount[c])
			if k.Replay != "" {
				dst := filepath.Join(verifDir, k.Replay)
				if _, err := os.Stat(dst); err != nil {
					// keep a minimised replay file of the known finding next to the others
					ff := filepath.Join(tmp, "known-"+slug(c)+".json")
					os.WriteFile(ff, ag.firstFail[c], 0o644)
					mf := filepath.Join(tmp, "knownmin-"+slug(c)+".json")
					cmd := exec.Command(bin, "-test.run", "^TestSim$", "-test.timeout", "0", "-prop", id, "-minimize", ff, "-out", mf, "-budget-ms", "20000")
					cmd.Env = append(os.Environ(), "GOMAXPROCS=2", "GODEBUG=asynctimerchan=0")
					if _, err := cmd.CombinedOutput(); err == nil {
						if b, err := os.ReadFile(mf); err == nil {
							os.MkdirAll(filepath.Dir(dst), 0o755)
							os.WriteFile(dst, b, 0o644)
						}
					}
				}
			}
			continue
		}
		unlisted++
		raw := ag.firstFail[c]
		ff := filepath.Join(tmp, "fail-"+slug(c)+".json")
		os.WriteFile(ff, raw, 0o644)
		final := ff
		cbin, cprop, crace := binFor(c)
		if minimised < 3 && !strings.Contains(c, "/data-race:") { // the race detector reports a racing pair once per process: no in-process minimisation
			minimised++
			mf := filepath.Join(tmp, "min-"+slug(c)+".json")
			cmd := exec.Command(cbin, "-test.run", "^TestSim$", "-test.timeout", "0", "-prop", cprop, "-minimize", ff, "-out", mf, "-budget-ms", "40000")
			cmd.Env = append(os.Environ(), "GOMAXPROCS=2", "GODEBUG=asynctimerchan=0")
			if out, err := cmd.CombinedOutput(); err != nil {
				fmt.Printf("vdriver: minimiser failed for %s: %v\n%s\n", c, err, lastLines(string(out), 20))
			} else if _, err := os.Stat(mf); err == nil {
				final = mf
			}
		}
		// replay verification in fresh processes
		ok := true
		var hashes []string
		if strings.Contains(c, "/data-race:") {
			// The schedule of a race-mode run replays exactly (its event-log hash must
			// be the same in every attempt); whether ThreadSanitizer REPORTS the pair
			// it ran into is probabilistic per process (its shadow cells keep a few
			// accesses per word and evict at random).  A report is accepted when a
			// fresh process re-executing the worker's batch up to that run reports the
			// same class at least once in raceReplayAttempts attempts.
			seen := false
			for rep := 0; rep < raceReplayAttempts && !(seen && len(hashes) >= 2); rep++ {
				cls, lh, err := replayFile(cbin, tmp, cprop, final, crace)
				if err != nil {
					fmt.Printf("vdriver: replay of %s failed: %v\n", final, err)
					ok = false
					break
				}
				hashes = append(hashes, lh)
				if cls == c {
					seen = true
				}
			}
			for _, h := range hashes {
				if h != hashes[0] {
					ok = false
					fmt.Printf("vdriver: replay of %s is not deterministic (log hashes %v)\n", final, hashes)
					break
				}
			}
			if ok && !seen {
				ok = false
				fmt.Printf("vdriver: %d replays of %s did not report class %q again\n", len(hashes), final, c)
			}
		} else {
			for rep := 0; rep < 2; rep++ {
				cls, lh, err := replayFile(cbin, tmp, cprop, final, crace)
				if err != nil || cls != c {
					ok = false
					fmt.Printf("vdriver: replay of %s gave class %q (want %q) err=%v\n", final, cls, c, err)
					break
				}
				hashes = append(hashes, lh)
			}
			if ok && len(hashes) == 2 && hashes[0] != hashes[1] {
				ok = false
				fmt.Printf("vdriver: replay of %s is not deterministic (log hashes %v)\n", final, hashes)
			}
		}
		if !ok {
			fmt.Printf("NONREPLAYABLE property=%s class=%s (withheld; simulator problem)\n", id, c)
			if exit == 0 {
				exit = 2
			}
			continue
		}
		os.MkdirAll(filepath.Join(outDir, "replays"), 0o755)
		dst := filepath.Join(outDir, "replays", fmt.Sprintf("%s-%s-seed%d.json", id, slug(strings.TrimPrefix(c, id+"/")), seed))
		b, _ := os.ReadFile(final)
		os.WriteFile(dst, b, 0o644)
		var f failure
		json.Unmarshal(b, &f)
		fmt.Printf("VIOLATION property=%s replay=%s\n", id, dst)
		fmt.Printf("  class: %s\n  first failing run: %d (of %d failing runs)\n  %s\n  %s\n", c, ag.firstRun[c], ag.failCount[c], f.Msg, f.MinInfo)
		exit = 1
	}
	var binfo []interface{}
	for _, b := range batches {
		e := map[string]interface{}{"batch": b.name, "harness": b.prop, "runs": batchRuns[b.name], "race_binary": b.race, "avoid": b.avoid}
		if b.prop != id {
			if cp, ok := props[b.prop]; ok {
				e["rule"] = cp.Rule
			}
		}
		binfo = append(binfo, e)
	}
	writeEvidence(id, tier, seed, p, ag, time.Since(start), unlisted, skipped, bin, binfo)
	fmt.Printf("vdriver: %s %s seed=%d runs=%d (skipped %d) steps=%d sim-time=%.0fs distinct-schedules=%d wall=%.1fs exit=%d\n",
		id, tier, seed, ag.runs, skipped, ag.st.Steps, float64(ag.st.SimTimeNs)/1e9, len(ag.sets["schedules"]), time.Since(start).Seconds(), exit)
	os.RemoveAll(tmp)
	os.Exit(exit)
}

func matchKnown(l []knownFinding, class string) *knownFinding {
	for i := range l {
		if l[i].Class == class {
			return &l[i]
		}
	}
	return nil
}

// raceReplayAttempts: see the triage loop in cmdCheck.
const raceReplayAttempts = 10

func replayFile(bin, tmp, id, file string, race ...bool) (class, logHash string, err error) {
	out := filepath.Join(tmp, "replay-out.json")
	os.Remove(out)
	cmd := exec.Command(bin, "-test.run", "^TestSim$", "-test.timeout", "10m", "-prop", id, "-replay", file, "-out", out)
	cmd.Env = append(os.Environ(), "GOMAXPROCS=2", "GODEBUG=asynctimerchan=0")
	isRace := len(race) > 0 && race[0]
	if isRace {
		cmd.Env = append(cmd.Env, raceEnv(tmp)...)
	}
	if b, e := cmd.CombinedOutput(); e != nil {
		if _, serr := os.Stat(out); !isRace || serr != nil {
			return "", "", fmt.Errorf("%v: %s", e, lastLines(string(b), 20))
		}
	}
	b, e := os.ReadFile(out)
	if e != nil {
		return "", "", e
	}
	var r struct {
		Class   string `json:"class"`
		LogHash string `json:"log_hash"`
	}
	if e := json.Unmarshal(b, &r); e != nil {
		return "", "", e
	}
	return r.Class, r.LogHash, nil
}

func doReplay(bin, tmp, id, file string) int {
	b, err := os.ReadFile(file)
	if err != nil {
		die(2, "%v", err)
	}
	var f failure
	if err := json.Unmarshal(b, &f); err != nil {
		die(2, "replay file: %v", err)
	}
	isRace := false
	if f.Property != "" && f.Property != id {
		// a replay file of one of the check's companions (race mode or not)
		if pi, ok := listProps(bin, tmp)[f.Property]; ok && pi.RaceMode {
			bin, isRace = pinBinary(buildHarness(true), tmp), true
		}
		id = f.Property
	}
	cls, lh, err := replayFile(bin, tmp, id, file, isRace)
	for rep := 1; isRace && err == nil && cls == "" && rep < raceReplayAttempts; rep++ {
		// a data-race report is probabilistic per process (see cmdCheck); the schedule is not
		cls, lh, err = replayFile(bin, tmp, id, file, isRace)
	}
	if err != nil {
		fmt.Println("vdriver: replay failed:", err)
		return 2
	}
	id = f.Property[:3]
	fmt.Printf("replay: class=%q log_hash=%s (recorded class=%q log_hash=%s)\n", cls, lh, f.Class, f.LogHash)
	if cls == "" {
		fmt.Println("replay: the violation does not occur on this tree")
		return 0
	}
	for _, k := range loadKnown() {
		if k.Property == id && k.Status == "known" && k.Class == cls {
			fmt.Printf("KNOWN-FINDING: property=%s %s — %s\n", id, cls, k.Description)
			return 0
		}
	}
	fmt.Printf("VIOLATION property=%s replay=%s\n", id, file)
	return 1
}

func writeEvidence(id, tier string, seed uint64, p propInfo, ag *agg, wall time.Duration, violations, skipped int, bin string, batches []interface{}) {
	faults := map[string]int64{}
	probes := map[string]int64{}
	other := map[string]int64{}
	for k, v := range ag.st.Counters {
		switch {
		case strings.HasPrefix(k, "fault."):
			faults[strings.TrimPrefix(k, "fault.")] = v
		case strings.HasPrefix(k, "probe."):
			probes[strings.TrimPrefix(k, "probe.")] = v
		default:
			other[k] = v
		}
	}
	distinct := map[string]int{}
	for k, m := range ag.sets {
		distinct[k] = len(m)
	}
	samples := make([]interface{}, 0, len(ag.st.Samples))
	for _, s := range ag.st.Samples {
		samples = append(samples, s)
	}
	if len(samples) == 0 {
		samples = append(samples, "no sample recorded")
	}
	evaluations := ag.runs
	if p.EvalCounter != "" {
		if n, ok := ag.st.Counters[p.EvalCounter]; ok {
			evaluations = int(n) // the cases of this check (several per run)
		}
	}
	cov := map[string]interface{}{
		"evaluations":                evaluations,
		"runs":                       ag.runs,
		"distinct_nontrivial":        distinct["nontrivial"],
		"rule":                       p.Rule,
		"samples":                    samples,
		"exhaustive":                 false,
		"runs_per_hour":              int(float64(ag.runs) / wall.Hours()),
		"evaluations_per_hour":       int(float64(evaluations) / wall.Hours()),
		"simulated_time_s":           float64(ag.st.SimTimeNs) / 1e9,
		"scheduling_steps":           ag.st.Steps,
		"decisions_with_ge2_ready":   ag.st.Decisions2,
		"distinct_sets":              distinct,
		"faults_fired":               faults,
		"probes":                     probes,
		"counters":                   other,
		"verdicts":                   ag.st.Verdicts,
		"inconclusive_runs":          ag.st.Inconcl,
		"runs_skipped_by_wall_clock": skipped,
		"components_real":            p.Real,
		"components_stubbed":         p.Stub,
		"seeds":                      fmt.Sprintf("base seed %d, run i uses mix(seed,i); replay files carry the full choice lists", seed),
		"failing_classes":            ag.failCount,
		"batches":                    batches,
	}
	ev := map[string]interface{}{
		"property_id": id,
		"tier":        tier,
		"seed":        int64(seed & 0x7fffffffffffffff),
		"level":       p.Level,
		"coverage":    cov,
		"assumptions": nonNil(p.Assumptions),
		"wall_s":      wall.Seconds(),
		"violations":  violations,
	}
	b, _ := json.MarshalIndent(ev, "", " ")
	evDir := filepath.Join(outDir, "evidence")
	if len(id) != 3 {
		// a companion harness run by hand (C09S, C01R, ...): not a property of its own
		evDir = filepath.Join(outDir, ".cache", "companion-evidence")
	}
	os.MkdirAll(evDir, 0o755)
	if err := os.WriteFile(filepath.Join(evDir, id+".json"), b, 0o644); err != nil {
		die(2, "evidence: %v", err)
	}
}

func nonNil(l []string) []string {
	if l == nil {
		return []string{}
	}
	return l
}

func main() {
	if len(os.Args) < 2 {
		die(2, "usage: vdriver check|build ...")
	}
	switch os.Args[1] {
	case "check":
		cmdCheck(os.Args[2:])
	case "selftest":
		cmdSelftest(os.Args[2:])
	case "build":
		ensureSimgen()
		bin := buildHarness(len(os.Args) > 2 && os.Args[2] == "--race")
		fmt.Println("vdriver: harness at", bin)
	default:
		die(2, "unknown command %q", os.Args[1])
	}
}

// cmdSelftest: determinism - the same (seed, run) must give the same event-log
// hash, schedule hash, step count and verdict in separate OS processes, at
// GOMAXPROCS 1, 4 and 16, and at a different position within a worker's batch.
func cmdSelftest(args []string) {
	if len(args) < 2 || args[0] != "determinism" {
		die(2, "usage: vdriver selftest determinism <id> [runs] [seed]")
	}
	id := args[1]
	runs := 300
	seed := "7"
	if len(args) > 2 {
		runs, _ = strconv.Atoi(args[2])
	}
	if len(args) > 3 {
		seed = args[3]
	}
	bin := buildHarness(false)
	tmp, err := os.MkdirTemp("/var/tmp", "verif-self-")
	if err != nil {
		die(2, "mktemp: %v", err)
	}
	defer os.RemoveAll(tmp)
	type variant struct {
		procs string
		slice int
	}
	variants := []variant{{"1", 50}, {"4", 37}, {"16", 11}}
	var results []map[int]string
	for vi, v := range variants {
		workerProcs = v.procs
		merged := map[int]string{}
		var mu sync.Mutex
		var wg sync.WaitGroup
		sem := make(chan struct{}, 16)
		var firstErr error
		idx := 0
		for f := 0; f < runs; f += v.slice {
			t := f + v.slice
			if t > runs {
				t = runs
			}
			wg.Add(1)
			sem <- struct{}{}
			idx++
			go func(f, t, idx int) {
				defer wg.Done()
				defer func() { <-sem }()
				wo, err := runWorker(bin, tmp, vi*100000+idx, []string{"-prop", id, "-tier", "quick", "-seed", seed, "-from", strconv.Itoa(f), "-to", strconv.Itoa(t), "-hashes"}, 10*time.Minute)
				mu.Lock()
				defer mu.Unlock()
				if err != nil {
					if firstErr == nil {
						firstErr = err
					}
					return
				}
				for k, h := range wo.RunHashes {
					merged[k] = h
				}
			}(f, t, idx)
		}
		wg.Wait()
		if firstErr != nil {
			die(2, "selftest worker: %v", firstErr)
		}
		results = append(results, merged)
	}
	bad := 0
	for r := 0; r < runs; r++ {
		a := results[0][r]
		for vi := 1; vi < len(results); vi++ {
			if results[vi][r] != a {
				if bad < 10 {
					fmt.Printf("NONDETERMINISTIC %s run %d: GOMAXPROCS=%s %s vs GOMAXPROCS=%s %s\n", id, r, variants[0].procs, a, variants[vi].procs, results[vi][r])
				}
				bad++
			}
		}
	}
	fmt.Printf("selftest determinism %s: %d runs x %d variants (GOMAXPROCS 1/4/16, different batch positions), %d mismatches\n", id, runs, len(variants), bad)
	if bad > 0 {
		os.Exit(1)
	}
}
