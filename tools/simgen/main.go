// simgen instruments a scratch copy of Inbucket so that every source of
// scheduling nondeterminism goes through the simulator's seams (DESIGN §2.1).
// It rewrites the non-test Go files of the given packages in place.
//
//	simgen -dir <copy-root> [-report file] ./pkg/... ./cmd/...
//
// Exit status: 0 ok, 2 on any failure (never reports a violation).
package main

import (
	"bytes"
	"encoding/json"
	"flag"
	"fmt"
	"go/ast"
	"go/format"
	"go/printer"
	"go/token"
	"go/types"
	"os"
	"path/filepath"
	"sort"
	"strconv"
	"strings"

	"golang.org/x/tools/go/ast/astutil"
	"golang.org/x/tools/go/packages"
)

const (
	modPath  = "github.com/inbucket/inbucket/v3"
	rtPath   = modPath + "/vsim/simrt"
	syncPath = modPath + "/vsim/simsync"
	fsPath   = modPath + "/vsim/simfs"
	netPath  = modPath + "/vsim/simnet"
)

type report struct {
	Files    int            `json:"files"`
	Counts   map[string]int `json:"counts"`
	Warnings []string       `json:"warnings"`
	Sites    []string       `json:"sites"`
}

var rep = report{Counts: map[string]int{}}

func warnf(format string, a ...interface{}) {
	rep.Warnings = append(rep.Warnings, fmt.Sprintf(format, a...))
}

func fatalf(format string, a ...interface{}) {
	fmt.Fprintf(os.Stderr, "simgen: "+format+"\n", a...)
	os.Exit(2)
}

func main() {
	dir := flag.String("dir", ".", "root of the scratch copy (module root)")
	reportFile := flag.String("report", "", "write a JSON report here")
	flag.Parse()
	patterns := flag.Args()
	if len(patterns) == 0 {
		patterns = []string{"./pkg/...", "./cmd/..."}
	}
	cfg := &packages.Config{
		Mode: packages.NeedName | packages.NeedFiles | packages.NeedCompiledGoFiles | packages.NeedSyntax |
			packages.NeedTypes | packages.NeedTypesInfo | packages.NeedImports,
		Dir:   *dir,
		Tests: false,
	}
	pkgs, err := packages.Load(cfg, patterns...)
	if err != nil {
		fatalf("load: %v", err)
	}
	nerr := 0
	for _, p := range pkgs {
		for _, e := range p.Errors {
			fmt.Fprintf(os.Stderr, "simgen: %s: %v\n", p.PkgPath, e)
			nerr++
		}
	}
	if nerr > 0 {
		fatalf("%d load/type errors", nerr)
	}
	sort.Slice(pkgs, func(i, j int) bool { return pkgs[i].PkgPath < pkgs[j].PkgPath })
	for _, p := range pkgs {
		if strings.Contains(p.PkgPath, "/vsim/") {
			continue
		}
		for i, f := range p.Syntax {
			name := p.CompiledGoFiles[i]
			if strings.HasSuffix(name, "_test.go") {
				continue
			}
			g := &gen{pkg: p, fset: p.Fset, file: f, name: name, info: p.TypesInfo,
				skip: map[ast.Node]bool{}, selSwitch: map[*ast.BlockStmt]*ast.SwitchStmt{}}
			g.run()
		}
	}
	for _, p := range pkgs {
		if p.PkgPath == modPath+"/pkg/storage/file" && len(p.CompiledGoFiles) > 0 {
			writeRestartOverlay(p)
		}
	}
	if *reportFile != "" {
		b, _ := json.MarshalIndent(rep, "", " ")
		if err := os.WriteFile(*reportFile, b, 0o644); err != nil {
			fatalf("report: %v", err)
		}
	}
	fmt.Printf("simgen: %d files rewritten, %v, %d warnings\n", rep.Files, rep.Counts, len(rep.Warnings))
	for _, w := range rep.Warnings {
		fmt.Println("simgen: warning:", w)
	}
}

// writeRestartOverlay adds one file to the scratch copy of pkg/storage/file:
// VerifProcessRestart gives the package-level state the value it has in a
// newly started process.  Today that state is the message id counter (a
// generator goroutine started by init feeding a buffered channel).  If the
// package no longer has that shape the function does nothing and says so.
func writeRestartOverlay(p *packages.Package) {
	resettable := false
	if ch, ok := p.Types.Scope().Lookup("countChannel").(*types.Var); ok {
		if fn, ok := p.Types.Scope().Lookup("countGenerator").(*types.Func); ok {
			sig := fn.Type().(*types.Signature)
			if c, ok := ch.Type().(*types.Chan); ok && types.Identical(c.Elem(), types.Typ[types.Int]) &&
				sig.Params().Len() == 1 && types.Identical(sig.Params().At(0).Type(), ch.Type()) && sig.Results().Len() == 0 {
				resettable = true
			}
		}
	}
	src := "//go:build verif\n\npackage file\n\n"
	if resettable {
		src += "import simrt \"" + rtPath + "\"\n\n" +
			"// VerifProcessRestart: a new process starts its id counter from the beginning.\n" +
			"func VerifProcessRestart() bool {\n" +
			"\tcountChannel = make(chan int, cap(countChannel))\n" +
			"\tc := countChannel\n" +
			"\tsimrt.Go(\"file.countGenerator\", func() { countGenerator(c) })\n" +
			"\treturn true\n}\n\n" +
			"// VerifSkipIDs consumes n ids: the process has been running for a while.\n" +
			"func VerifSkipIDs(n int) {\n" +
			"\tfor i := 0; i < n; i++ {\n\t\tsimrt.Recv(countChannel)\n\t}\n}\n"
		rep.Counts["overlay.id-counter-restart"]++
	} else {
		src += "// VerifProcessRestart: no package-level state of the known shape to reset.\n" +
			"func VerifProcessRestart() bool { return false }\n\n" +
			"// VerifSkipIDs: nothing to skip.\nfunc VerifSkipIDs(n int) {}\n"
		warnf("pkg/storage/file: countChannel/countGenerator not found in the expected shape; process restarts do not reset the id counter")
	}
	dir := filepath.Dir(p.CompiledGoFiles[0])
	if err := os.WriteFile(filepath.Join(dir, "zz_verif_restart.go"), []byte(src), 0o644); err != nil {
		fatalf("overlay: %v", err)
	}
}

type gen struct {
	pkg       *packages.Package
	fset      *token.FileSet
	file      *ast.File
	name      string
	info      *types.Info
	skip      map[ast.Node]bool
	selSwitch map[*ast.BlockStmt]*ast.SwitchStmt
	changed   bool
	needRT    bool
	needNet   bool
	tmp       int
}

func (g *gen) pos(n ast.Node) string {
	p := g.fset.Position(n.Pos())
	return fmt.Sprintf("%s:%d", filepath.Base(p.Filename), p.Line)
}

func (g *gen) site(kind string, n ast.Node) {
	rep.Counts[kind]++
	rep.Sites = append(rep.Sites, kind+" "+g.pkg.PkgPath[len(modPath):]+"/"+g.pos(n))
	g.changed = true
}

func (g *gen) fresh(base string) string {
	g.tmp++
	return fmt.Sprintf("_sim%s%d", base, g.tmp)
}

func rt(name string) ast.Expr {
	return &ast.SelectorExpr{X: ast.NewIdent("simrt"), Sel: ast.NewIdent(name)}
}

func call(fn ast.Expr, args ...ast.Expr) *ast.CallExpr {
	return &ast.CallExpr{Fun: fn, Args: args}
}

func id(s string) *ast.Ident { return ast.NewIdent(s) }

func define(lhs []ast.Expr, rhs ...ast.Expr) *ast.AssignStmt {
	return &ast.AssignStmt{Lhs: lhs, Tok: token.DEFINE, Rhs: rhs}
}

func assign(lhs []ast.Expr, rhs ...ast.Expr) *ast.AssignStmt {
	return &ast.AssignStmt{Lhs: lhs, Tok: token.ASSIGN, Rhs: rhs}
}

func intLit(i int) ast.Expr { return &ast.BasicLit{Kind: token.INT, Value: strconv.Itoa(i)} }

func isBlank(e ast.Expr) bool {
	if e == nil {
		return true
	}
	i, ok := e.(*ast.Ident)
	return ok && i.Name == "_"
}

// pure reports whether evaluating e repeatedly is harmless (identifier or
// selector chain on identifiers).
func pure(e ast.Expr) bool {
	switch x := e.(type) {
	case *ast.Ident:
		return true
	case *ast.SelectorExpr:
		return pure(x.X)
	case *ast.ParenExpr:
		return pure(x.X)
	}
	return false
}

func (g *gen) importName(path string) (string, bool) {
	for _, im := range g.file.Imports {
		p, _ := strconv.Unquote(im.Path.Value)
		if p == path {
			if im.Name != nil {
				return im.Name.Name, true
			}
			return filepath.Base(path), true
		}
	}
	return "", false
}

// isPkgSel reports whether e is <pkgpath>.<name> for one of the names.
func (g *gen) isPkgSel(e ast.Expr, pkgPath string, names ...string) (string, bool) {
	sel, ok := e.(*ast.SelectorExpr)
	if !ok {
		return "", false
	}
	x, ok := sel.X.(*ast.Ident)
	if !ok {
		return "", false
	}
	pn, ok := g.info.Uses[x].(*types.PkgName)
	if !ok || pn.Imported().Path() != pkgPath {
		return "", false
	}
	for _, n := range names {
		if sel.Sel.Name == n {
			return n, true
		}
	}
	return "", false
}

func (g *gen) run() {
	f := g.file
	// import swaps
	swapSync := false
	swapOS := false
	for _, im := range f.Imports {
		p, _ := strconv.Unquote(im.Path.Value)
		switch {
		case p == "sync":
			name := "sync"
			if im.Name != nil {
				name = im.Name.Name
			}
			im.Name = id(name)
			im.Path.Value = strconv.Quote(syncPath)
			swapSync = true
		case p == "os" && g.pkg.PkgPath == modPath+"/pkg/storage/file":
			name := "os"
			if im.Name != nil {
				name = im.Name.Name
			}
			im.Name = id(name)
			im.Path.Value = strconv.Quote(fsPath)
			swapOS = true
		}
	}
	if swapSync {
		g.site("import.sync", f.Name)
	}
	if swapOS {
		g.site("import.os", f.Name)
	}

	astutil.Apply(f, g.pre, g.post)

	if !g.changed {
		return
	}
	if g.needRT {
		astutil.AddNamedImport(g.fset, f, "simrt", rtPath)
	}
	if g.needNet {
		astutil.AddNamedImport(g.fset, f, "simnet", netPath)
	}
	for _, p := range []string{"net", "crypto/tls", "time"} {
		if _, ok := g.importName(p); ok && !astutil.UsesImport(f, p) {
			astutil.DeleteImport(g.fset, f, p)
		}
	}
	// Comments are dropped (positions no longer match); keep the header.
	var header []string
	for _, cg := range f.Comments {
		if cg.End() < f.Package {
			for _, c := range cg.List {
				header = append(header, c.Text)
			}
			header = append(header, "")
		}
	}
	f.Comments = nil
	f.Doc = nil
	var buf bytes.Buffer
	for _, h := range header {
		buf.WriteString(h + "\n")
	}
	if err := (&printer.Config{Mode: printer.UseSpaces | printer.TabIndent, Tabwidth: 8}).Fprint(&buf, token.NewFileSet(), f); err != nil {
		fatalf("print %s: %v", g.name, err)
	}
	out, err := format.Source(buf.Bytes())
	if err != nil {
		os.WriteFile(g.name+".simgen-broken", buf.Bytes(), 0o644)
		fatalf("format %s: %v", g.name, err)
	}
	if err := os.WriteFile(g.name, out, 0o644); err != nil {
		fatalf("write %s: %v", g.name, err)
	}
	rep.Files++
}

func (g *gen) pre(c *astutil.Cursor) bool {
	switch n := c.Node().(type) {
	case *ast.SelectStmt:
		for _, cl := range n.Body.List {
			cc := cl.(*ast.CommClause)
			switch s := cc.Comm.(type) {
			case *ast.SendStmt:
				g.skip[s] = true
			case *ast.ExprStmt:
				g.skip[unparen(s.X)] = true
			case *ast.AssignStmt:
				g.skip[unparen(s.Rhs[0])] = true
			}
		}
	}
	return true
}

func unparen(e ast.Expr) ast.Expr {
	for {
		p, ok := e.(*ast.ParenExpr)
		if !ok {
			return e
		}
		e = p.X
	}
}

func (g *gen) post(c *astutil.Cursor) bool {
	switch n := c.Node().(type) {
	case *ast.GoStmt:
		g.rewriteGo(c, n)
	case *ast.SendStmt:
		if g.skip[n] {
			return true
		}
		g.needRT = true
		g.site("chan.send", n)
		c.Replace(&ast.ExprStmt{X: call(rt("Send"), n.Chan, n.Value)})
	case *ast.UnaryExpr:
		if n.Op != token.ARROW || g.skip[n] {
			return true
		}
		g.needRT = true
		fn := "Recv"
		switch p := c.Parent().(type) {
		case *ast.AssignStmt:
			if len(p.Lhs) == 2 && len(p.Rhs) == 1 {
				fn = "Recv2"
			}
		case *ast.ValueSpec:
			if len(p.Names) == 2 && len(p.Values) == 1 {
				fn = "Recv2"
			}
		}
		g.site("chan.recv", n)
		c.Replace(call(rt(fn), n.X))
	case *ast.RangeStmt:
		g.rewriteRange(c, n)
	case *ast.SelectStmt:
		g.rewriteSelect(c, n)
	case *ast.LabeledStmt:
		if blk, ok := n.Stmt.(*ast.BlockStmt); ok {
			if sw := g.selSwitch[blk]; sw != nil {
				// move the label onto the switch that replaced the select
				for i, s := range blk.List {
					if s == ast.Stmt(sw) {
						blk.List[i] = &ast.LabeledStmt{Label: n.Label, Stmt: sw}
					}
				}
				c.Replace(blk)
			}
		}
	case *ast.CallExpr:
		if _, ok := g.isPkgSel(n.Fun, "time", "Sleep"); ok {
			g.needRT = true
			g.site("call.time.Sleep", n)
			n.Fun = rt("Sleep")
		}
		if name, ok := g.isPkgSel(n.Fun, "net", "Listen", "ListenTCP"); ok {
			g.needNet = true
			g.site("call.net."+name, n)
			n.Fun = &ast.SelectorExpr{X: id("simnet"), Sel: id(name)}
		}
		if _, ok := g.isPkgSel(n.Fun, "crypto/tls", "Listen"); ok {
			g.needNet = true
			g.site("call.tls.Listen", n)
			n.Fun = &ast.SelectorExpr{X: id("simnet"), Sel: id("ListenTLS")}
		}
	case *ast.AssignStmt:
		// m[k] = v on a map whose key type has no natural order: note insertion order
		if len(n.Lhs) == 1 && (n.Tok == token.ASSIGN) {
			if ix, ok := n.Lhs[0].(*ast.IndexExpr); ok {
				if mt, ok := g.typeOf(ix.X).(*types.Map); ok && !orderable(mt.Key()) && pure(ix.X) && pure(ix.Index) {
					if c.Index() >= 0 {
						g.needRT = true
						g.site("map.note", n)
						c.InsertBefore(&ast.ExprStmt{X: call(rt("MapNote"), ix.X, ix.Index)})
					} else {
						warnf("%s: map insert with unorderable key not noted", g.pos(n))
					}
				} else if ok && !orderable(mt.Key()) {
					warnf("%s: map insert with unorderable key and impure operands not noted", g.pos(n))
				}
			}
		}
	}
	return true
}

func (g *gen) typeOf(e ast.Expr) types.Type {
	t := g.info.TypeOf(e)
	if t == nil {
		return nil
	}
	return t.Underlying()
}

func orderable(t types.Type) bool {
	b, ok := t.Underlying().(*types.Basic)
	if !ok {
		return false
	}
	switch b.Kind() {
	case types.String, types.Int, types.Int64, types.Uint64:
		return true
	}
	return false
}

func (g *gen) rewriteGo(c *astutil.Cursor, n *ast.GoStmt) {
	g.needRT = true
	callee := n.Call
	if callee.Ellipsis.IsValid() {
		warnf("%s: go statement with variadic spread left uninstrumented", g.pos(n))
		return
	}
	// results?
	if sig, ok := g.typeOf(callee.Fun).(*types.Signature); ok {
		if sig.Results().Len() > 0 || sig.Variadic() {
			// wrap: evaluate callee and args now, call in a closure
			g.goHoisted(c, n)
			return
		}
	} else {
		// conversion or builtin: leave
		warnf("%s: go statement on non-function left uninstrumented", g.pos(n))
		return
	}
	if len(callee.Args) > 4 {
		g.goHoisted(c, n)
		return
	}
	g.site("go", n)
	args := append([]ast.Expr{callee.Fun}, callee.Args...)
	c.Replace(&ast.ExprStmt{X: call(rt("Go"+strconv.Itoa(len(callee.Args))), args...)})
}

// goHoisted handles go statements the generic helpers cannot express.
func (g *gen) goHoisted(c *astutil.Cursor, n *ast.GoStmt) {
	callee := n.Call
	var stmts []ast.Stmt
	fv := g.fresh("f")
	stmts = append(stmts, define([]ast.Expr{id(fv)}, callee.Fun))
	var args []ast.Expr
	for _, a := range callee.Args {
		tv, ok := g.info.Types[a]
		if ok && tv.Value != nil {
			args = append(args, a) // constant: safe to evaluate later
			continue
		}
		av := g.fresh("a")
		stmts = append(stmts, define([]ast.Expr{id(av)}, a))
		args = append(args, id(av))
	}
	inner := &ast.CallExpr{Fun: id(fv), Args: args, Ellipsis: callee.Ellipsis}
	lit := &ast.FuncLit{Type: &ast.FuncType{Params: &ast.FieldList{}}, Body: &ast.BlockStmt{List: []ast.Stmt{&ast.ExprStmt{X: inner}}}}
	stmts = append(stmts, &ast.ExprStmt{X: call(rt("Go0"), lit)})
	g.site("go.hoisted", n)
	c.Replace(&ast.BlockStmt{List: stmts})
}

func (g *gen) rewriteRange(c *astutil.Cursor, n *ast.RangeStmt) {
	_, labeled := c.Parent().(*ast.LabeledStmt)
	switch t := g.typeOf(n.X).(type) {
	case *types.Map:
		_ = t
		g.needRT = true
		var pre []ast.Stmt
		m := n.X
		if !pure(m) {
			if labeled {
				warnf("%s: labeled range over impure map expression left uninstrumented", g.pos(n))
				return
			}
			mv := g.fresh("m")
			pre = append(pre, define([]ast.Expr{id(mv)}, m))
			m = id(mv)
		}
		kv := g.fresh("k")
		ok := g.fresh("ok")
		vv := g.fresh("v")
		var body []ast.Stmt
		lhsV := ast.Expr(id(vv))
		if isBlank(n.Value) {
			lhsV = id("_")
		}
		body = append(body, define([]ast.Expr{lhsV, id(ok)}, &ast.IndexExpr{X: m, Index: id(kv)}))
		body = append(body, &ast.IfStmt{Cond: &ast.UnaryExpr{Op: token.NOT, X: id(ok)}, Body: &ast.BlockStmt{List: []ast.Stmt{&ast.BranchStmt{Tok: token.CONTINUE}}}})
		if !isBlank(n.Key) {
			body = append(body, &ast.AssignStmt{Lhs: []ast.Expr{n.Key}, Tok: n.Tok, Rhs: []ast.Expr{id(kv)}})
		}
		if !isBlank(n.Value) {
			body = append(body, &ast.AssignStmt{Lhs: []ast.Expr{n.Value}, Tok: n.Tok, Rhs: []ast.Expr{id(vv)}})
		}
		body = append(body, n.Body.List...)
		loop := &ast.RangeStmt{Key: id("_"), Value: id(kv), Tok: token.DEFINE, X: call(rt("MapKeys"), m), Body: &ast.BlockStmt{List: body}}
		g.site("range.map", n)
		g.emit(c, pre, loop)
	case *types.Chan:
		g.needRT = true
		var pre []ast.Stmt
		ch := n.X
		if !labeled {
			cv := g.fresh("c")
			pre = append(pre, define([]ast.Expr{id(cv)}, ch))
			ch = id(cv)
		} else if !pure(ch) {
			warnf("%s: labeled range over impure channel expression left uninstrumented", g.pos(n))
			return
		}
		ok := g.fresh("ok")
		vv := g.fresh("v")
		var body []ast.Stmt
		lhsV := ast.Expr(id(vv))
		if isBlank(n.Key) {
			lhsV = id("_")
		}
		body = append(body, define([]ast.Expr{lhsV, id(ok)}, call(rt("Recv2"), ch)))
		body = append(body, &ast.IfStmt{Cond: &ast.UnaryExpr{Op: token.NOT, X: id(ok)}, Body: &ast.BlockStmt{List: []ast.Stmt{&ast.BranchStmt{Tok: token.BREAK}}}})
		if !isBlank(n.Key) {
			body = append(body, &ast.AssignStmt{Lhs: []ast.Expr{n.Key}, Tok: n.Tok, Rhs: []ast.Expr{id(vv)}})
		}
		body = append(body, n.Body.List...)
		loop := &ast.ForStmt{Body: &ast.BlockStmt{List: body}}
		g.site("range.chan", n)
		g.emit(c, pre, loop)
	}
}

// emit replaces the current statement by pre...; stmt (in a block if needed).
func (g *gen) emit(c *astutil.Cursor, pre []ast.Stmt, stmt ast.Stmt) {
	if len(pre) == 0 {
		c.Replace(stmt)
		return
	}
	c.Replace(&ast.BlockStmt{List: append(pre, stmt)})
}

func (g *gen) rewriteSelect(c *astutil.Cursor, n *ast.SelectStmt) {
	g.needRT = true
	type caseInfo struct {
		cc      *ast.CommClause
		isSend  bool
		chVar   string
		valVar  string
		recvVar string
		okVar   string
		lhs     []ast.Expr
		tok     token.Token
	}
	var cases []*caseInfo
	var defaultCC *ast.CommClause
	var stmts []ast.Stmt
	nComm := 0
	for _, cl := range n.Body.List {
		cc := cl.(*ast.CommClause)
		if cc.Comm == nil {
			defaultCC = cc
			continue
		}
		ci := &caseInfo{cc: cc}
		nComm++
		switch s := cc.Comm.(type) {
		case *ast.SendStmt:
			ci.isSend = true
			ci.chVar = g.fresh("c")
			ci.valVar = g.fresh("s")
			stmts = append(stmts, define([]ast.Expr{id(ci.chVar)}, s.Chan))
			stmts = append(stmts, define([]ast.Expr{id(ci.valVar)}, call(rt("SendVal"), id(ci.chVar), s.Value)))
		case *ast.ExprStmt:
			u := unparen(s.X).(*ast.UnaryExpr)
			ci.chVar = g.fresh("c")
			stmts = append(stmts, define([]ast.Expr{id(ci.chVar)}, u.X))
		case *ast.AssignStmt:
			u := unparen(s.Rhs[0]).(*ast.UnaryExpr)
			ci.chVar = g.fresh("c")
			ci.lhs = s.Lhs
			ci.tok = s.Tok
			stmts = append(stmts, define([]ast.Expr{id(ci.chVar)}, u.X))
		}
		cases = append(cases, ci)
	}
	if nComm == 0 {
		// select {} or select { default: } - nothing to schedule
		if defaultCC == nil {
			tv := g.fresh("t")
			g.site("select.empty", n)
			c.Replace(&ast.BlockStmt{List: []ast.Stmt{
				define([]ast.Expr{id(tv)}, call(rt("Pre"), &ast.BasicLit{Kind: token.STRING, Value: `"select{}"`})),
				n,
				&ast.ExprStmt{X: call(rt("Post"), id(tv))},
			}})
		}
		return
	}
	g.site("select", n)
	// receive result holders
	for _, ci := range cases {
		if ci.isSend {
			continue
		}
		ci.recvVar = g.fresh("r")
		ci.okVar = g.fresh("ok")
		stmts = append(stmts, define([]ast.Expr{id(ci.recvVar)}, call(rt("Zero"), id(ci.chVar))))
		stmts = append(stmts, &ast.DeclStmt{Decl: &ast.GenDecl{Tok: token.VAR, Specs: []ast.Spec{&ast.ValueSpec{Names: []*ast.Ident{id(ci.okVar)}, Type: id("bool")}}}})
		stmts = append(stmts, assign([]ast.Expr{id("_"), id("_")}, id(ci.recvVar), id(ci.okVar)))
	}
	sel := g.fresh("sel")
	idx := g.fresh("idx")
	stmts = append(stmts, define([]ast.Expr{id(sel)}, call(rt("SelBegin"), intLit(nComm))))
	stmts = append(stmts, define([]ast.Expr{id(idx)}, &ast.UnaryExpr{Op: token.SUB, X: intLit(1)}))
	// non-blocking tries in seeded order
	iv := g.fresh("i")
	var tryCases []ast.Stmt
	for i, ci := range cases {
		var body []ast.Stmt
		if ci.isSend {
			body = []ast.Stmt{&ast.IfStmt{
				Cond: call(rt("TrySend"), id(ci.chVar), id(ci.valVar)),
				Body: &ast.BlockStmt{List: []ast.Stmt{assign([]ast.Expr{id(idx)}, intLit(i))}},
			}}
		} else {
			v, ok, got := g.fresh("v"), g.fresh("o"), g.fresh("g")
			body = []ast.Stmt{&ast.IfStmt{
				Init: define([]ast.Expr{id(v), id(ok), id(got)}, call(rt("TryRecv"), id(ci.chVar))),
				Cond: id(got),
				Body: &ast.BlockStmt{List: []ast.Stmt{assign([]ast.Expr{id(ci.recvVar), id(ci.okVar), id(idx)}, id(v), id(ok), intLit(i))}},
			}}
		}
		tryCases = append(tryCases, &ast.CaseClause{List: []ast.Expr{intLit(i)}, Body: body})
	}
	tryLoop := &ast.RangeStmt{Key: id("_"), Value: id(iv), Tok: token.DEFINE, X: call(&ast.SelectorExpr{X: id(sel), Sel: id("Order")}),
		Body: &ast.BlockStmt{List: []ast.Stmt{
			&ast.SwitchStmt{Tag: id(iv), Body: &ast.BlockStmt{List: tryCases}},
			&ast.IfStmt{Cond: &ast.BinaryExpr{X: id(idx), Op: token.GEQ, Y: intLit(0)}, Body: &ast.BlockStmt{List: []ast.Stmt{&ast.BranchStmt{Tok: token.BREAK}}}},
		}}}
	stmts = append(stmts, &ast.IfStmt{
		Cond: &ast.UnaryExpr{Op: token.NOT, X: call(&ast.SelectorExpr{X: id(sel), Sel: id("Plain")})},
		Body: &ast.BlockStmt{List: []ast.Stmt{tryLoop}},
	})
	// fall back: default or the original blocking select
	var blocking []ast.Stmt
	{
		var cls []ast.Stmt
		for i, ci := range cases {
			var comm ast.Stmt
			if ci.isSend {
				comm = &ast.SendStmt{Chan: id(ci.chVar), Value: id(ci.valVar)}
			} else {
				comm = assign([]ast.Expr{id(ci.recvVar), id(ci.okVar)}, &ast.UnaryExpr{Op: token.ARROW, X: id(ci.chVar)})
			}
			cls = append(cls, &ast.CommClause{Comm: comm, Body: []ast.Stmt{assign([]ast.Expr{id(idx)}, intLit(i))}})
		}
		if defaultCC != nil {
			cls = append(cls, &ast.CommClause{Comm: nil, Body: []ast.Stmt{assign([]ast.Expr{id(idx)}, intLit(nComm))}})
		}
		blocking = []ast.Stmt{&ast.SelectStmt{Body: &ast.BlockStmt{List: cls}}}
	}
	stmts = append(stmts, &ast.IfStmt{
		Cond: &ast.BinaryExpr{X: id(idx), Op: token.LSS, Y: intLit(0)},
		Body: &ast.BlockStmt{List: blocking},
	})
	stmts = append(stmts, &ast.ExprStmt{X: call(&ast.SelectorExpr{X: id(sel), Sel: id("End")})})
	// dispatch to the original bodies
	var swCases []ast.Stmt
	for i, ci := range cases {
		var body []ast.Stmt
		if !ci.isSend && len(ci.lhs) > 0 {
			rhs := []ast.Expr{id(ci.recvVar)}
			if len(ci.lhs) == 2 {
				rhs = append(rhs, id(ci.okVar))
			}
			body = append(body, &ast.AssignStmt{Lhs: ci.lhs, Tok: ci.tok, Rhs: rhs})
			if ci.tok == token.DEFINE {
				// keep the compiler quiet if the original only used some of them
				for _, l := range ci.lhs {
					if !isBlank(l) {
						body = append(body, assign([]ast.Expr{id("_")}, l))
					}
				}
			}
		}
		body = append(body, ci.cc.Body...)
		swCases = append(swCases, &ast.CaseClause{List: []ast.Expr{intLit(i)}, Body: body})
	}
	if defaultCC != nil {
		swCases = append(swCases, &ast.CaseClause{List: nil, Body: defaultCC.Body})
	} else {
		// keeps "terminating statement" analysis as for the original select
		swCases = append(swCases, &ast.CaseClause{List: nil, Body: []ast.Stmt{
			&ast.ExprStmt{X: call(id("panic"), &ast.BasicLit{Kind: token.STRING, Value: `"simgen: unreachable select case"`})}}})
	}
	sw := &ast.SwitchStmt{Tag: id(idx), Body: &ast.BlockStmt{List: swCases}}
	stmts = append(stmts, sw)
	blk := &ast.BlockStmt{List: stmts}
	g.selSwitch[blk] = sw
	c.Replace(blk)
}
