#!/bin/bash
# run every quick check once (as MANIFEST.json registers them) and summarise
cd /verif
for id in C01 C02 C03 C04 C05 C06 C07 C08 C09 C10 C11 C12 C13 C14 C15 C16 C17 C19; do
  ./check $id --tier quick 2>&1 | grep -E "^VIOLATION|^KNOWN-FINDING|^vdriver: C|could not decide|NONREPLAYABLE" | cut -c1-220
done
