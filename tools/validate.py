#!/opt/veriftools/pyvenv/bin/python
"""Validate MANIFEST.json and evidence/*.json against the schemas in /root/.vp (run with python3-vt)."""
import json, glob, sys
import jsonschema
ok = True
m = json.load(open('/verif/MANIFEST.json'))
jsonschema.validate(m, json.load(open('/root/.vp/MANIFEST.schema.json')))
print('MANIFEST.json valid:', len(m.get('checks', m.get('properties', []))), 'entries')
es = json.load(open('/root/.vp/EVIDENCE.schema.json'))
for f in sorted(glob.glob('/verif/evidence/*.json')):
    try:
        e = json.load(open(f))
        jsonschema.validate(e, es)
        c = e['coverage']
        print('%s ok tier=%s evaluations=%s distinct_nontrivial=%s violations=%s' % (f.split('/')[-1], e['tier'], c.get('evaluations'), c.get('distinct_nontrivial'), e.get('violations')))
    except Exception as ex:
        ok = False
        print(f, 'INVALID', str(ex)[:300])
sys.exit(0 if ok else 1)
