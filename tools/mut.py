#!/usr/bin/env python3
"""Apply a one-off textual mutation to /repo, run the given checks (quick tier), revert.
usage: tools/mut.py <relative file> <old> <new> <prop> [<prop>...]   (old must occur exactly once)"""
import subprocess, sys, os
f, old, new, props = sys.argv[1], sys.argv[2], sys.argv[3], sys.argv[4:]
p = os.path.join('/repo', f)
s = open(p).read()
if s.count(old) != 1:
    print("mutation site occurs %d times" % s.count(old)); sys.exit(2)
assert subprocess.run(['git','-C','/repo','status','--porcelain'],capture_output=True,text=True).stdout.strip()=='' , "repo dirty"
open(p,'w').write(s.replace(old,new))
try:
    b = subprocess.run('cd /repo && go build ./... 2>&1 | tail -3', shell=True, capture_output=True, text=True)
    if b.stdout.strip():
        print("BUILD FAILS:", b.stdout); sys.exit(2)
    if os.environ.get('MUT_TESTS','1')=='1':
        t = subprocess.run('cd /repo && go test -vet=off -count=1 ./... 2>&1 | grep -v "no test files" | grep -v "^ok" | head -5', shell=True, capture_output=True, text=True)
        print("baseline suite:", "PASS" if not t.stdout.strip() else "FAIL\n"+t.stdout)
    for pr in props:
        r = subprocess.run(['/verif/check', pr] + os.environ.get('MUT_ARGS','').split(), capture_output=True, text=True)
        lines = [l for l in r.stdout.splitlines() if l.startswith('VIOLATION') or l.startswith('  class') or l.startswith('vdriver: C') or 'NONREPLAY' in l]
        print(pr, "exit", r.returncode, "|", " ; ".join(lines[:4]))
finally:
    subprocess.run(['git','-C','/repo','checkout','--','.'])
    # remove replay files produced by the mutant
    subprocess.run('cd /verif && git status --porcelain replays | grep "^??" | cut -c4- | xargs -r rm -f', shell=True)
    subprocess.run('cd /verif && git checkout -- evidence replays 2>/dev/null', shell=True)
