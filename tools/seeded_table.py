#!/usr/bin/env python3
"""Print the markdown table of /verif/seeded/*/meta.json (DESIGN §11.9)."""
import json, glob, os, re
rows = []
for d in sorted(glob.glob('/verif/seeded/*/')):
    m = json.load(open(d + 'meta.json'))
    name = os.path.basename(d.rstrip('/'))
    what = ''
    notes = d + 'notes.md'
    if os.path.exists(notes):
        txt = open(notes).read()
        # first heading or first non-empty line
        for ln in txt.splitlines():
            ln = ln.strip('# ').strip()
            if ln and not ln.lower().startswith('mutation') or (ln.lower().startswith('mutation') and len(ln) > 14):
                what = ln
                break
    first = m.get('caught_by', [])
    classes = []
    for c, r in m.get('checks_run_quick_tier', {}).items():
        if r['exit'] == 1 and r['classes']:
            classes.append(r['classes'][0].split('/', 1)[1] if '/' in r['classes'][0] else r['classes'][0])
    after = m.get('after_strengthening', {}).get('caught_by')
    res = ', '.join(first) if first else '**missed**'
    if after is not None:
        res += ' → after strengthening: ' + (', '.join(after) if after else '**still missed**')
    rows.append('| %s | %s | %s | %s |' % (name, re.sub(r'\|', '/', what)[:150], res, '; '.join(classes)[:110]))
print('| id | change (from the sub-agent\'s notes) | caught by (quick tier) | first class reported |')
print('|---|---|---|---|')
print('\n'.join(rows))
