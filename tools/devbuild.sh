#!/bin/bash
# Developer helper: assemble + instrument + build into /var/tmp/vdev (not used by registered checks).
set -e
export GOFLAGS=-mod=mod GOPROXY=off GOSUMDB=off GOTOOLCHAIN=local
W=${1:-/var/tmp/vdev}
rm -rf $W; mkdir -p $W; cd $W
cp -r /repo/go.mod /repo/go.sum /repo/cmd /repo/pkg .
mkdir vsim && cp -r /verif/sim/* vsim/
go1.26.8 mod edit -require=github.com/anishathalye/porcupine@v1.3.0
/verif/bin/simgen -dir $W -report $W/simgen.json ./pkg/... ./cmd/... >/dev/null
go1.26.8 test -c -trimpath -o $W/simcheck.test ./vsim/harness
echo built $W/simcheck.test
