// Package simnet provides the listener and connection every simulated run
// uses instead of TCP.  Call sites of net.Listen, net.ListenTCP and tls.Listen
// in the instrumented copy are redirected here; under a simulation they return
// a simulated listener, otherwise the real one.  A connection is a pair of
// byte queues; segmentation of writes, delivery delay, send-buffer capacity,
// deadlines, FIN, RST and half-close are under the control of the run's choice
// source and of the harness client that owns the other end.
package simnet

import (
	"crypto/tls"
	"errors"
	"fmt"
	"io"
	"net"
	"os"
	"syscall"
	"time"

	"github.com/inbucket/inbucket/v3/vsim/simrt"
)

// ListenTCP is net.ListenTCP.
//
//go:norace
func ListenTCP(network string, laddr *net.TCPAddr) (net.Listener, error) {
	t := simrt.Current()
	if t == nil {
		l, err := net.ListenTCP(network, laddr)
		if err != nil {
			return nil, err // keep the interface nil
		}
		return l, nil
	}
	return listen(t, laddr.String())
}

// Listen is net.Listen.
//
//go:norace
func Listen(network, address string) (net.Listener, error) {
	t := simrt.Current()
	if t == nil {
		return net.Listen(network, address)
	}
	return listen(t, address)
}

// ListenTLS is tls.Listen; TLS is never simulated.
//
//go:norace
func ListenTLS(network, laddr string, config *tls.Config) (net.Listener, error) {
	t := simrt.Current()
	if t == nil {
		return tls.Listen(network, laddr, config)
	}
	return nil, errors.New("simnet: TLS listeners are not simulated")
}

// Net is the per-simulation network state.
type Net struct {
	sim       *simrt.Sim
	listeners map[string]*Listener
	nextPort  int
	// Profile decides segmentation, delays and buffer sizes of new connections.
	Profile Profile
}

// Profile holds the per-run network parameters.
type Profile struct {
	// SegMode: 0 whole writes, 1 seeded chunk sizes, 2 byte-by-byte for short
	// writes (<=64 bytes) and seeded chunks otherwise.
	SegMode int
	// MaxDelay is the maximum delivery delay of a segment (0 = immediate).
	MaxDelay time.Duration
	// BufCap is the capacity of each direction in bytes (0 = unbounded).
	BufCap int
	// Trace logs every read and write (debugging).
	Trace bool
}

const valKey = "simnet"

// Of returns the network of sim, creating it on first use.
//
//go:norace
func Of(s *simrt.Sim) *Net {
	if n, ok := s.Val(valKey).(*Net); ok {
		return n
	}
	n := &Net{sim: s, listeners: map[string]*Listener{}, nextPort: 40000}
	s.SetVal(valKey, n)
	return n
}

//go:norace
func listen(t *simrt.Task, addr string) (net.Listener, error) {
	n := Of(t.Sim())
	if l := n.listeners[addr]; l != nil && !l.closed {
		return nil, &net.OpError{Op: "listen", Net: "tcp", Err: syscall.EADDRINUSE}
	}
	l := &Listener{net: n, addr: addr}
	n.listeners[addr] = l
	t.Sim().Logf("listen %s", addr)
	return l, nil
}

// Listener is a simulated net.Listener.
type Listener struct {
	net     *Net
	addr    string
	queue   []*Conn
	waiters []*simrt.Task
	closed  bool
}

type addr string

//go:norace
func (a addr) Network() string { return "tcp" }

//go:norace
func (a addr) String() string { return string(a) }

// Accept waits for the next connection.
//
//go:norace
func (l *Listener) Accept() (net.Conn, error) {
	t := simrt.Current()
	if t == nil {
		return nil, errors.New("simnet: Accept outside simulation")
	}
	t.Yield("accept")
	for {
		if l.closed {
			return nil, &net.OpError{Op: "accept", Net: "tcp", Addr: addr(l.addr), Err: net.ErrClosed}
		}
		if len(l.queue) > 0 {
			c := l.queue[0]
			l.queue = l.queue[1:]
			c.accepted = true
			return c, nil
		}
		l.waiters = append(l.waiters, t)
		t.Block("accept")
	}
}

// Close stops the listener; blocked Accept calls fail with net.ErrClosed.
// Connections queued but not yet accepted are reset.
//
//go:norace
func (l *Listener) Close() error {
	if l.closed {
		return &net.OpError{Op: "close", Net: "tcp", Addr: addr(l.addr), Err: net.ErrClosed}
	}
	l.closed = true
	for _, c := range l.queue {
		c.Abort()
	}
	l.queue = nil
	for _, w := range l.waiters {
		l.net.sim.MakeReady(w)
	}
	l.waiters = nil
	if t := simrt.Current(); t != nil {
		t.Sim().Logf("listener %s closed", l.addr)
	}
	return nil
}

// Addr returns the listen address.
//
//go:norace
func (l *Listener) Addr() net.Addr { return tcpAddr(l.addr) }

//go:norace
func tcpAddr(s string) net.Addr {
	a, err := net.ResolveTCPAddr("tcp", s)
	if err != nil {
		return addr(s)
	}
	return a
}

// ErrRefused is returned by Dial when nobody listens on the address.
var ErrRefused = &net.OpError{Op: "dial", Net: "tcp", Err: syscall.ECONNREFUSED}

// Dial connects a harness client to the listener at address and returns the
// client end.
//
//go:norace
func Dial(address string) (*Conn, error) {
	t := simrt.Current()
	if t == nil {
		return nil, errors.New("simnet: Dial outside simulation")
	}
	t.Yield("dial")
	n := Of(t.Sim())
	l := n.listeners[address]
	if l == nil || l.closed {
		return nil, ErrRefused
	}
	n.nextPort++
	cl, sv := n.Pipe(fmt.Sprintf("192.0.2.7:%d", n.nextPort), address)
	l.queue = append(l.queue, sv)
	for _, w := range l.waiters {
		n.sim.MakeReady(w)
	}
	l.waiters = nil
	return cl, nil
}

// Pipe returns two connected ends (a dials b).
//
//go:norace
func (n *Net) Pipe(aAddr, bAddr string) (*Conn, *Conn) {
	ab := &stream{net: n, cap: n.Profile.BufCap}
	ba := &stream{net: n, cap: n.Profile.BufCap}
	a := &Conn{net: n, in: ba, out: ab, local: aAddr, remote: bAddr}
	b := &Conn{net: n, in: ab, out: ba, local: bAddr, remote: aAddr}
	a.peer, b.peer = b, a
	return a, b
}

type segment struct {
	data []byte
	at   time.Time // readable from this instant
}

// stream is one direction of a connection.
type stream struct {
	net      *Net
	segs     []segment
	size     int
	cap      int
	finished bool // writer closed (FIN)
	reset    bool // connection reset
	rdClosed bool // reader closed its end: writes fail
	rwait    *simrt.Task
	wwait    *simrt.Task
	lastAt   time.Time
	total    int64
}

//go:norace
func (s *stream) wakeReader() {
	if s.rwait != nil {
		s.net.sim.MakeReady(s.rwait)
		s.rwait = nil
	}
}

//go:norace
func (s *stream) wakeWriter() {
	if s.wwait != nil {
		s.net.sim.MakeReady(s.wwait)
		s.wwait = nil
	}
}

// Conn is a simulated net.Conn.
type Conn struct {
	net    *Net
	peer   *Conn
	in     *stream
	out    *stream
	local  string
	remote string
	rdl    time.Time
	wdl    time.Time
	closed bool
	// accepted is set on the server end when Listener.Accept returned it.
	accepted bool
	// Raw disables segmentation and delays for writes from this end (harness
	// clients that script their own chunking use it).
	Raw bool
}

type timeoutError struct{}

//go:norace
func (timeoutError) Error() string { return "i/o timeout" }

//go:norace
func (timeoutError) Timeout() bool { return true }

//go:norace
func (timeoutError) Temporary() bool { return true }

//go:norace
func (timeoutError) Is(err error) bool {
	return err == os.ErrDeadlineExceeded
}

//go:norace
func (c *Conn) opErr(op string, err error) error {
	return &net.OpError{Op: op, Net: "tcp", Source: tcpAddr(c.local), Addr: tcpAddr(c.remote), Err: err}
}

// Read implements net.Conn.
//
//go:norace
func (c *Conn) Read(p []byte) (int, error) {
	t := simrt.Current()
	if t == nil {
		return 0, errors.New("simnet: Read outside simulation")
	}
	t.Yield("conn read")
	s := c.in
	for {
		if c.closed {
			return 0, c.opErr("read", net.ErrClosed)
		}
		if s.reset {
			return 0, c.opErr("read", syscall.ECONNRESET)
		}
		if len(p) == 0 {
			return 0, nil
		}
		var wakeAt time.Time
		if len(s.segs) > 0 {
			sg := &s.segs[0]
			if !sg.at.After(time.Now()) {
				n := copy(p, sg.data)
				if c.net.Profile.Trace {
					t.Sim().Logf("read %s<-%s %d bytes %q", c.local, c.remote, n, clipb(p[:n]))
				}
				sg.data = sg.data[n:]
				s.size -= n
				if len(sg.data) == 0 {
					s.segs = s.segs[1:]
				}
				s.wakeWriter()
				return n, nil
			}
			wakeAt = sg.at
		} else if s.finished {
			return 0, io.EOF
		}
		if !c.rdl.IsZero() && !c.rdl.After(time.Now()) {
			return 0, c.opErr("read", timeoutError{})
		}
		dl := c.rdl
		if !wakeAt.IsZero() && (dl.IsZero() || wakeAt.Before(dl)) {
			dl = wakeAt
		}
		s.rwait = t
		t.BlockUntil("conn read", dl)
		if s.rwait == t {
			s.rwait = nil
		}
	}
}

// Write implements net.Conn.
//
//go:norace
func (c *Conn) Write(p []byte) (int, error) {
	t := simrt.Current()
	if t == nil {
		return 0, errors.New("simnet: Write outside simulation")
	}
	t.Yield("conn write")
	s := c.out
	written := 0
	sim := t.Sim()
	for len(p) > 0 || written == 0 {
		if c.closed || s.finished {
			return written, c.opErr("write", net.ErrClosed)
		}
		if s.reset {
			return written, c.opErr("write", syscall.ECONNRESET)
		}
		if s.rdClosed {
			// peer closed: the first write is swallowed, later ones fail
			if s.total < 0 {
				return written, c.opErr("write", syscall.EPIPE)
			}
			s.total = -1
			return written + len(p), nil
		}
		if len(p) == 0 {
			return 0, nil
		}
		if !c.wdl.IsZero() && !c.wdl.After(time.Now()) {
			// like package net: past its deadline a write fails at once, room or no room
			return written, c.opErr("write", timeoutError{})
		}
		room := len(p)
		if s.cap > 0 {
			room = s.cap - s.size
			if room <= 0 {
				if !c.wdl.IsZero() && !c.wdl.After(time.Now()) {
					return written, c.opErr("write", timeoutError{})
				}
				sim.Count("net.write_blocked", 1)
				s.wwait = t
				if t.BlockUntil("conn write", c.wdl) {
					if s.wwait == t {
						s.wwait = nil
					}
					return written, c.opErr("write", timeoutError{})
				}
				if s.wwait == t {
					s.wwait = nil
				}
				continue
			}
			if room > len(p) {
				room = len(p)
			}
		}
		n := room
		if !c.Raw {
			n = c.net.chunk(room)
		}
		seg := segment{data: append([]byte(nil), p[:n]...), at: time.Now()}
		if c.net.Profile.Trace {
			sim.Logf("write %s->%s %d bytes %q", c.local, c.remote, n, clipb(p[:n]))
		}
		if !c.Raw && c.net.Profile.MaxDelay > 0 {
			d := time.Duration(sim.S.Choose(8)) * c.net.Profile.MaxDelay / 7
			seg.at = seg.at.Add(d)
		}
		if seg.at.Before(s.lastAt) {
			seg.at = s.lastAt // in-order delivery
		}
		s.lastAt = seg.at
		s.segs = append(s.segs, seg)
		s.size += n
		s.total += int64(n)
		written += n
		p = p[n:]
		sim.Count("net.segments", 1)
		s.wakeReader()
		if len(p) > 0 {
			// let the reader run between segments of one write
			t.Yield("conn write (segment)")
		}
	}
	return written, nil
}

// chunk returns how many of n bytes go into the next segment.
//
//go:norace
func (nt *Net) chunk(n int) int {
	if n <= 1 {
		return n
	}
	S := nt.sim.S
	switch nt.Profile.SegMode {
	case 1:
		return pickChunk(S, n)
	case 2:
		if n <= 64 {
			return 1
		}
		return pickChunk(S, n)
	}
	return n
}

//go:norace
func pickChunk(S *simrt.Choices, n int) int {
	sizes := []int{n, 1, 2, 3, 7, 64, 512, 1460, 4096, n / 2, n - 1}
	k := sizes[S.Choose(len(sizes))]
	if k < 1 {
		k = 1
	}
	if k > n {
		k = n
	}
	return k
}

// Close closes this end: the peer reads EOF after draining, the peer's later
// writes fail.
//
//go:norace
func (c *Conn) Close() error {
	if c.closed {
		return c.opErr("close", net.ErrClosed)
	}
	c.closed = true
	c.out.finished = true
	c.out.wakeReader()
	c.in.rdClosed = true
	c.in.wakeWriter()
	c.in.wakeReader()
	if t := simrt.Current(); t != nil {
		t.Sim().Logf("conn %s->%s closed", c.local, c.remote)
	}
	return nil
}

// CloseWrite half-closes: the peer reads EOF, this end can still read.
//
//go:norace
func (c *Conn) CloseWrite() error {
	c.out.finished = true
	c.out.wakeReader()
	return nil
}

// Abort resets the connection: both directions fail with ECONNRESET.
//
//go:norace
func (c *Conn) Abort() {
	c.closed = true
	for _, s := range []*stream{c.in, c.out} {
		s.reset = true
		s.segs = nil
		s.size = 0
		s.wakeReader()
		s.wakeWriter()
	}
	if t := simrt.Current(); t != nil {
		t.Sim().Logf("conn %s->%s reset", c.local, c.remote)
		t.Sim().Count("fault.conn_reset", 1)
	}
}

// PeerAccepted reports whether the listener's Accept has returned the other
// end of this connection.
//
//go:norace
func (c *Conn) PeerAccepted() bool { return c.peer.accepted }

// PeerClosed reports whether the other end has closed (or reset) the connection.
//
//go:norace
func (c *Conn) PeerClosed() bool { return c.peer.closed || c.in.reset }

// LocalAddr implements net.Conn.
//
//go:norace
func (c *Conn) LocalAddr() net.Addr { return tcpAddr(c.local) }

// RemoteAddr implements net.Conn.
//
//go:norace
func (c *Conn) RemoteAddr() net.Addr { return tcpAddr(c.remote) }

// SetDeadline implements net.Conn.
//
//go:norace
func (c *Conn) SetDeadline(t time.Time) error {
	c.rdl, c.wdl = t, t
	c.in.wakeReader()
	c.out.wakeWriter()
	return nil
}

// SetReadDeadline implements net.Conn.
//
//go:norace
func (c *Conn) SetReadDeadline(t time.Time) error {
	if c.closed {
		return c.opErr("set", net.ErrClosed)
	}
	c.rdl = t
	c.in.wakeReader()
	return nil
}

// SetWriteDeadline implements net.Conn.
//
//go:norace
func (c *Conn) SetWriteDeadline(t time.Time) error {
	if c.closed {
		return c.opErr("set", net.ErrClosed)
	}
	c.wdl = t
	c.out.wakeWriter()
	return nil
}

// Buffered returns the bytes written by the peer and not yet read here.
//
//go:norace
func (c *Conn) Buffered() int { return c.in.size }

//go:norace
func clipb(b []byte) string {
	if len(b) > 24 {
		return string(b[:12]) + "..." + string(b[len(b)-12:])
	}
	return string(b)
}
