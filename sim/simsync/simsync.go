// Package simsync replaces package sync in instrumented Inbucket packages.
// Under a simulation Mutex, RWMutex, WaitGroup and Once live on scheduler
// state: acquiring is a scheduling point, contended acquirers park in the
// scheduler and the run's choice source decides who proceeds.  Outside a
// simulation (or when called from a goroutine that is not a simulated task)
// every type behaves exactly like its sync counterpart.
package simsync

import (
	"sync"

	"github.com/inbucket/inbucket/v3/vsim/simrt"
)

// Aliases for types that need no scheduler involvement.
type (
	// Map is sync.Map.
	Map = sync.Map
	// Locker is sync.Locker.
	Locker = sync.Locker
	// Cond is sync.Cond.
	Cond = sync.Cond
)

// Pool is sync.Pool.  Under a simulation it is deterministic and as eager to
// recycle as a pool may be: Get returns the most recently Put object whenever
// there is one (sync.Pool's own choice depends on the P the goroutine runs on
// and on GC timing).  An object that is still in use after it was Put is
// thereby handed to the next Get at once.
type Pool struct {
	New func() any

	real  sync.Pool
	gen   uint64
	slots [64]any
	n     int
}

// Get selects an object from the pool, or calls New.
//
//go:norace
func (p *Pool) Get() any {
	t := simrt.Current()
	if t == nil {
		if p.real.New == nil && p.New != nil {
			p.real.New = p.New
		}
		return p.real.Get()
	}
	s := t.Sim()
	if p.gen != s.Gen() {
		p.gen, p.n = s.Gen(), 0
	}
	if p.n > 0 {
		p.n--
		x := p.slots[p.n]
		p.slots[p.n] = nil
		simrt.RaceAcquire(&p.slots[p.n])
		s.Count("sync.pool_reuse", 1)
		return x
	}
	if p.New != nil {
		return p.New()
	}
	return nil
}

// Put adds x to the pool.
//
//go:norace
func (p *Pool) Put(x any) {
	if x == nil {
		return
	}
	t := simrt.Current()
	if t == nil {
		p.real.Put(x)
		return
	}
	s := t.Sim()
	if p.gen != s.Gen() {
		p.gen, p.n = s.Gen(), 0
	}
	if p.n < len(p.slots) {
		simrt.RaceRelease(&p.slots[p.n])
		p.slots[p.n] = x
		p.n++
	}
}

// NewCond is sync.NewCond.
//
//go:norace
func NewCond(l Locker) *Cond { return sync.NewCond(l) }

// OnceFunc is sync.OnceFunc.
//
//go:norace
func OnceFunc(f func()) func() { return sync.OnceFunc(f) }

type simState struct {
	gen     uint64 // simulation generation this state belongs to
	writer  bool
	readers int
	wwait   int // writers waiting (RWMutex): new readers queue behind them
	waiters []*simrt.Task
}

//go:norace
func (st *simState) fresh(s *simrt.Sim) {
	if st.gen != s.Gen() {
		*st = simState{gen: s.Gen()}
	}
}

//go:norace
func (st *simState) wakeAll(s *simrt.Sim) {
	for _, w := range st.waiters {
		s.MakeReady(w)
	}
	st.waiters = st.waiters[:0]
}

// Mutex is sync.Mutex.
type Mutex struct {
	real sync.Mutex
	st   simState
}

// Lock locks m.
//
//go:norace
func (m *Mutex) Lock() {
	t := simrt.Current()
	if t == nil {
		m.real.Lock()
		return
	}
	s := t.Sim()
	m.st.fresh(s)
	t.Yield("mutex lock")
	for m.st.writer {
		m.st.waiters = append(m.st.waiters, t)
		s.Count("sync.mutex_contended", 1)
		t.Block("mutex wait")
	}
	m.st.writer = true
	simrt.RaceAcquire(m)
}

// TryLock tries to lock m.
//
//go:norace
func (m *Mutex) TryLock() bool {
	t := simrt.Current()
	if t == nil {
		return m.real.TryLock()
	}
	m.st.fresh(t.Sim())
	if m.st.writer {
		return false
	}
	m.st.writer = true
	simrt.RaceAcquire(m)
	return true
}

// Unlock unlocks m.
//
//go:norace
func (m *Mutex) Unlock() {
	t := simrt.Current()
	if t == nil {
		m.real.Unlock()
		return
	}
	s := t.Sim()
	m.st.fresh(s)
	if !m.st.writer {
		panic("sync: unlock of unlocked mutex")
	}
	simrt.RaceRelease(m)
	m.st.writer = false
	m.st.wakeAll(s)
}

// RWMutex is sync.RWMutex, including its writer preference: once a writer waits,
// new readers wait behind it (which is what makes a recursive read lock a deadlock).
type RWMutex struct {
	real sync.RWMutex
	st   simState
}

// Lock locks rw for writing.
//
//go:norace
func (rw *RWMutex) Lock() {
	t := simrt.Current()
	if t == nil {
		rw.real.Lock()
		return
	}
	s := t.Sim()
	rw.st.fresh(s)
	t.Yield("rwmutex lock")
	for rw.st.writer || rw.st.readers > 0 {
		rw.st.waiters = append(rw.st.waiters, t)
		s.Count("sync.rwmutex_contended", 1)
		rw.st.wwait++
		t.Block("rwmutex wait")
		rw.st.wwait--
	}
	rw.st.writer = true
	// a writer sees what earlier writers (rsem) and earlier readers (wsem) released
	simrt.RaceAcquire(&rw.st)
	simrt.RaceAcquire(&rw.real)
}

// Unlock unlocks rw for writing.
//
//go:norace
func (rw *RWMutex) Unlock() {
	t := simrt.Current()
	if t == nil {
		rw.real.Unlock()
		return
	}
	s := t.Sim()
	rw.st.fresh(s)
	if !rw.st.writer {
		panic("sync: Unlock of unlocked RWMutex")
	}
	simrt.RaceRelease(&rw.st)
	simrt.RaceRelease(&rw.real)
	rw.st.writer = false
	rw.st.wakeAll(s)
}

// RLock locks rw for reading.
//
//go:norace
func (rw *RWMutex) RLock() {
	t := simrt.Current()
	if t == nil {
		rw.real.RLock()
		return
	}
	s := t.Sim()
	rw.st.fresh(s)
	t.Yield("rwmutex rlock")
	for rw.st.writer || rw.st.wwait > 0 {
		rw.st.waiters = append(rw.st.waiters, t)
		s.Count("sync.rwmutex_contended", 1)
		t.Block("rwmutex rwait")
	}
	rw.st.readers++
	// a reader sees what earlier writers released; readers are not ordered among themselves
	simrt.RaceAcquire(&rw.st)
}

// RUnlock undoes a single RLock.
//
//go:norace
func (rw *RWMutex) RUnlock() {
	t := simrt.Current()
	if t == nil {
		rw.real.RUnlock()
		return
	}
	s := t.Sim()
	rw.st.fresh(s)
	if rw.st.readers <= 0 {
		panic("sync: RUnlock of unlocked RWMutex")
	}
	simrt.RaceRelease(&rw.real)
	rw.st.readers--
	if rw.st.readers == 0 {
		rw.st.wakeAll(s)
	}
}

// RLocker returns a Locker for the read side.
//
//go:norace
func (rw *RWMutex) RLocker() Locker { return (*rlocker)(rw) }

type rlocker RWMutex

//go:norace
func (r *rlocker) Lock() { (*RWMutex)(r).RLock() }

//go:norace
func (r *rlocker) Unlock() { (*RWMutex)(r).RUnlock() }

// WaitGroup is sync.WaitGroup.
type WaitGroup struct {
	real sync.WaitGroup
	gen  uint64
	n    int
	wait []*simrt.Task
}

//go:norace
func (wg *WaitGroup) fresh(s *simrt.Sim) {
	if wg.gen != s.Gen() {
		wg.gen, wg.n, wg.wait = s.Gen(), 0, nil
	}
}

// Add adds delta to the counter.
//
//go:norace
func (wg *WaitGroup) Add(delta int) {
	t := simrt.Current()
	if t == nil {
		wg.real.Add(delta)
		return
	}
	s := t.Sim()
	wg.fresh(s)
	if delta < 0 {
		simrt.RaceRelease(wg)
	}
	wg.n += delta
	if wg.n < 0 {
		panic("sync: negative WaitGroup counter")
	}
	if wg.n == 0 {
		for _, w := range wg.wait {
			s.MakeReady(w)
		}
		wg.wait = nil
	}
}

// Done decrements the counter.
//
//go:norace
func (wg *WaitGroup) Done() { wg.Add(-1) }

// Go runs f in a new goroutine tracked by the group (Go 1.25 API).
//
//go:norace
func (wg *WaitGroup) Go(f func()) {
	wg.Add(1)
	simrt.Go("wg.Go", func() {
		defer wg.Done()
		f()
	})
}

// Wait blocks until the counter is zero.
//
//go:norace
func (wg *WaitGroup) Wait() {
	t := simrt.Current()
	if t == nil {
		wg.real.Wait()
		return
	}
	s := t.Sim()
	wg.fresh(s)
	t.Yield("waitgroup wait")
	for wg.n > 0 {
		wg.wait = append(wg.wait, t)
		t.Block("waitgroup wait")
	}
	simrt.RaceAcquire(wg)
}

// Once is sync.Once.
type Once struct {
	real sync.Once
	gen  uint64
	done bool
	m    Mutex
}

// Do calls f if and only if Do is being called for the first time.
//
//go:norace
func (o *Once) Do(f func()) {
	t := simrt.Current()
	if t == nil {
		o.real.Do(f)
		return
	}
	if o.gen != t.Sim().Gen() {
		o.gen, o.done = t.Sim().Gen(), false
	}
	if o.done {
		simrt.RaceAcquire(o)
		return
	}
	o.m.Lock()
	defer o.m.Unlock()
	if !o.done {
		defer func() {
			simrt.RaceRelease(o)
			o.done = true
		}()
		f()
	}
}
