package models

import "strings"

// Policy is the documented accept / store / reject-origin rule set
// (doc/config.md, SMTP section; property C05).
type Policy struct {
	DefaultAccept  bool
	AcceptDomains  []string
	RejectDomains  []string
	DefaultStore   bool
	StoreDomains   []string
	DiscardDomains []string
	RejectOrigin   []string // patterns with * and ?
	MaxRecipients  int
}

func inList(l []string, d string) bool {
	for _, x := range l {
		if strings.EqualFold(x, d) {
			return true
		}
	}
	return false
}

// AcceptRecipient: default-accept and not in the reject list, or
// default-reject and in the accept list.  Case is ignored.
func (p *Policy) AcceptRecipient(domain string) bool {
	if p.DefaultAccept {
		return !inList(p.RejectDomains, domain)
	}
	return inList(p.AcceptDomains, domain)
}

// StoreRecipient: default-store and not in the discard list, or
// default-discard and in the store list.
func (p *Policy) StoreRecipient(domain string) bool {
	if p.DefaultStore {
		return !inList(p.DiscardDomains, domain)
	}
	return inList(p.StoreDomains, domain)
}

// AcceptOrigin: refused exactly when the domain matches a reject-origin pattern.
func (p *Policy) AcceptOrigin(domain string) bool {
	for _, pat := range p.RejectOrigin {
		if WildMatch(strings.ToLower(pat), strings.ToLower(domain)) {
			return false
		}
	}
	return true
}

// WildMatch matches s against pattern p where * is any run and ? any one character.
func WildMatch(p, s string) bool {
	pr, sr := []rune(p), []rune(s)
	var rec func(i, j int) bool
	rec = func(i, j int) bool {
		if i == len(pr) {
			return j == len(sr)
		}
		if pr[i] == '*' {
			for k := j; k <= len(sr); k++ {
				if rec(i+1, k) {
					return true
				}
			}
			return false
		}
		if j < len(sr) && (pr[i] == '?' || pr[i] == sr[j]) {
			return rec(i+1, j+1)
		}
		return false
	}
	return rec(0, 0)
}
