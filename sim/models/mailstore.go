// Package models holds the small executable reference models the oracles
// compare Inbucket against.  Nothing here imports Inbucket.
package models

import (
	"sort"
	"time"
)

// Addr is a display name plus address.
type Addr struct{ Name, Address string }

// Msg is one message as the model knows it.
type Msg struct {
	Mailbox string
	ID      string // assigned by the implementation, recorded by the model
	Token   string // unique per add; how the oracle recognises the message
	From    Addr
	To      []Addr
	Date    time.Time
	Subject string
	Body    []byte
	Seen    bool
	Seq     int // global arrival sequence number
}

// Size is the stored size.
func (m *Msg) Size() int64 { return int64(len(m.Body)) }

// MailStore is a map from mailbox name to an arrival-ordered list of messages
// with an optional per-mailbox cap and an optional total size limit.
type MailStore struct {
	Boxes map[string][]*Msg
	Ever  map[string]map[string]bool // every id ever issued per mailbox
	Cap   int                        // 0 = none
	Limit int64                      // 0 = none (bytes over the whole store)
	seq   int
}

// NewMailStore returns an empty model.
func NewMailStore(cap int, limit int64) *MailStore {
	return &MailStore{Boxes: map[string][]*Msg{}, Ever: map[string]map[string]bool{}, Cap: cap, Limit: limit}
}

// Clone deep-copies the model (messages are shared; they are immutable except Seen).
func (s *MailStore) Clone() *MailStore {
	c := NewMailStore(s.Cap, s.Limit)
	c.seq = s.seq
	for k, l := range s.Boxes {
		nl := make([]*Msg, len(l))
		for i, m := range l {
			cp := *m
			nl[i] = &cp
		}
		c.Boxes[k] = nl
	}
	for k, m := range s.Ever {
		nm := map[string]bool{}
		for id := range m {
			nm[id] = true
		}
		c.Ever[k] = nm
	}
	return c
}

// IDKnown reports whether id was ever issued in mailbox.
func (s *MailStore) IDKnown(mailbox, id string) bool { return s.Ever[mailbox][id] }

// Add appends m (ID must be set) and returns the messages evicted by the cap
// and the size limit, in eviction order.
func (s *MailStore) Add(m *Msg) (evicted []*Msg) {
	s.seq++
	m.Seq = s.seq
	if s.Ever[m.Mailbox] == nil {
		s.Ever[m.Mailbox] = map[string]bool{}
	}
	s.Ever[m.Mailbox][m.ID] = true
	s.Boxes[m.Mailbox] = append(s.Boxes[m.Mailbox], m)
	if s.Cap > 0 {
		for len(s.Boxes[m.Mailbox]) > s.Cap {
			evicted = append(evicted, s.Boxes[m.Mailbox][0])
			s.Boxes[m.Mailbox] = s.Boxes[m.Mailbox][1:]
		}
	}
	if s.Limit > 0 {
		for s.Total() > s.Limit {
			o := s.Oldest()
			if o == nil {
				break
			}
			evicted = append(evicted, o)
			s.Remove(o.Mailbox, o.ID)
		}
	}
	return evicted
}

// Total is the number of stored bytes.
func (s *MailStore) Total() int64 {
	var t int64
	for _, l := range s.Boxes {
		for _, m := range l {
			t += m.Size()
		}
	}
	return t
}

// Oldest returns the globally oldest message.
func (s *MailStore) Oldest() *Msg {
	var o *Msg
	for _, l := range s.Boxes {
		if len(l) > 0 && (o == nil || l[0].Seq < o.Seq) {
			o = l[0]
		}
	}
	return o
}

// Get returns the live message with id, or nil.
func (s *MailStore) Get(mailbox, id string) *Msg {
	for _, m := range s.Boxes[mailbox] {
		if m.ID == id {
			return m
		}
	}
	return nil
}

// Latest returns the newest message of mailbox, or nil.
func (s *MailStore) Latest(mailbox string) *Msg {
	l := s.Boxes[mailbox]
	if len(l) == 0 {
		return nil
	}
	return l[len(l)-1]
}

// List returns the live messages oldest first.
func (s *MailStore) List(mailbox string) []*Msg { return s.Boxes[mailbox] }

// Remove deletes one message; reports whether it existed.
func (s *MailStore) Remove(mailbox, id string) bool {
	l := s.Boxes[mailbox]
	for i, m := range l {
		if m.ID == id {
			s.Boxes[mailbox] = append(append([]*Msg{}, l[:i]...), l[i+1:]...)
			return true
		}
	}
	return false
}

// Purge empties a mailbox and returns what it held.
func (s *MailStore) Purge(mailbox string) []*Msg {
	l := s.Boxes[mailbox]
	delete(s.Boxes, mailbox)
	return l
}

// MarkSeen sets the flag; reports whether the message existed.
func (s *MailStore) MarkSeen(mailbox, id string) bool {
	if m := s.Get(mailbox, id); m != nil {
		m.Seen = true
		return true
	}
	return false
}

// NonEmpty returns the names of non-empty mailboxes, sorted.
func (s *MailStore) NonEmpty() []string {
	var l []string
	for k, v := range s.Boxes {
		if len(v) > 0 {
			l = append(l, k)
		}
	}
	sort.Strings(l)
	return l
}

// Hash folds the observable state into a number (distinct-state counting).
func (s *MailStore) Hash() uint64 {
	h := uint64(1469598103934665603)
	mix := func(b []byte) {
		for _, c := range b {
			h = (h ^ uint64(c)) * 1099511628211
		}
	}
	for _, k := range s.NonEmpty() {
		mix([]byte(k))
		for i, m := range s.Boxes[k] {
			mix([]byte{byte(i), byte(len(m.Body)), byte(len(m.Body) >> 8)})
			if m.Seen {
				mix([]byte{1})
			}
			mix([]byte(m.Subject))
		}
		mix([]byte{0xff})
	}
	return h
}
