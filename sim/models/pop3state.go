package models

// POP3Msg is one entry of a POP3 session's snapshot: what the store listed
// for the mailbox at the moment of login.
type POP3Msg struct {
	ID   string
	Size int64
}

// POP3Line is one line of a LIST / UIDL listing as the model expects it.
type POP3Line struct {
	Num  int // message number, 1-based position in the snapshot
	Size int64
	ID   string
}

// POP3State is the reference model of a POP3 session in TRANSACTION state:
// the snapshot taken at login plus the deletion marks.  Numbers, sizes and ids
// never change; only marks do.
type POP3State struct {
	Snap   []POP3Msg
	Marked []bool
}

// NewPOP3State starts a session over the given snapshot, nothing marked.
func NewPOP3State(snap []POP3Msg) *POP3State {
	return &POP3State{Snap: append([]POP3Msg{}, snap...), Marked: make([]bool, len(snap))}
}

// N is the number of messages in the snapshot (marked or not).
func (s *POP3State) N() int { return len(s.Snap) }

// InRange reports whether n names a message of the snapshot.
func (s *POP3State) InRange(n int64) bool { return n >= 1 && n <= int64(len(s.Snap)) }

// Visible reports whether n names a message of the snapshot that is not marked.
func (s *POP3State) Visible(n int64) bool { return s.InRange(n) && !s.Marked[n-1] }

// Dele marks message n; reports whether n was visible before.
func (s *POP3State) Dele(n int64) bool {
	if !s.Visible(n) {
		return false
	}
	s.Marked[n-1] = true
	return true
}

// Rset removes every mark.
func (s *POP3State) Rset() {
	for i := range s.Marked {
		s.Marked[i] = false
	}
}

// Stat is the number and total size of the unmarked messages.
func (s *POP3State) Stat() (count int, size int64) {
	for i, m := range s.Snap {
		if !s.Marked[i] {
			count++
			size += m.Size
		}
	}
	return
}

// Listing is the unmarked part of the snapshot in snapshot order.
func (s *POP3State) Listing() []POP3Line {
	var l []POP3Line
	for i, m := range s.Snap {
		if !s.Marked[i] {
			l = append(l, POP3Line{Num: i + 1, Size: m.Size, ID: m.ID})
		}
	}
	return l
}

// MarkedIDs are the ids of the marked messages in snapshot order.
func (s *POP3State) MarkedIDs() []string {
	var l []string
	for i, m := range s.Snap {
		if s.Marked[i] {
			l = append(l, m.ID)
		}
	}
	return l
}

// NMarked is the number of marked messages.
func (s *POP3State) NMarked() int {
	n := 0
	for _, b := range s.Marked {
		if b {
			n++
		}
	}
	return n
}
