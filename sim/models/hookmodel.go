package models

import (
	"strconv"
	"strings"
)

// Reference model of extension hooks, written from the text of property C17
// and the comments on extension.Events ("the first listener to respond with a
// non-nil value determines the response") - not from pkg/extension/luahost.
//
// A hook is "if Cond then Answer else Answer".  Answers that are not a
// response object (nil, nothing, a value of the wrong kind, a raised error)
// are "no answer": the next listener is asked, and if nobody answers the
// built-in policy decides.  allow / deny / defer are answers; the first one
// counts.  defer is an answer that says "use the policy".

// HookView is what a handler can see of the SMTP session or inbound message.
type HookView struct {
	From    string   // envelope sender (session) or header sender (message)
	To      []string // session: accepted recipients plus, at RCPT, the one being decided (last)
	Subject string   // message only
}

func (v HookView) lastTo() string {
	if len(v.To) == 0 {
		return ""
	}
	return v.To[len(v.To)-1]
}

// Cond is a handler's condition.
type Cond struct {
	Kind string // always never from-prefix from-contains last-to-prefix last-to-contains to-count-gt subject-contains
	Arg  string
	N    int
}

// Holds evaluates the condition.
func (c Cond) Holds(v HookView) bool {
	switch c.Kind {
	case "always":
		return true
	case "from-prefix":
		return strings.HasPrefix(v.From, c.Arg)
	case "from-contains":
		return strings.Contains(v.From, c.Arg)
	case "last-to-prefix":
		return strings.HasPrefix(v.lastTo(), c.Arg)
	case "last-to-contains":
		return strings.Contains(v.lastTo(), c.Arg)
	case "to-count-gt":
		return len(v.To) > c.N
	case "subject-contains":
		return strings.Contains(v.Subject, c.Arg)
	}
	return false
}

// SMTPAnswer is what a MAIL/RCPT handler does in one branch.
type SMTPAnswer struct {
	Kind string // allow deny deny-code deny-code-text defer nil nothing garbage error
	Form int    // which spelling of garbage / error (rendering only)
	Code int
	Text string
	// the deny text is Text followed by these echoes of the caller's session
	EchoFrom, EchoLastTo, EchoCount bool
	// Mutate: the handler first writes to session.from.address (its private
	// copy); this must have no effect on anything.
	Mutate bool
}

// SMTPHook is one MAIL or RCPT handler.
type SMTPHook struct {
	If         Cond
	Then, Else SMTPAnswer
}

// Decision is the result of asking a chain of listeners.
type Decision struct {
	Answered         bool   // some listener gave a response
	Who              string // the listener that answered
	Action           string // allow | deny | defer (when Answered)
	Code             int    // when HasCode
	Text             string // when HasText
	HasCode, HasText bool
	Kinds            []string // answer kinds evaluated along the chain, "<listener>:<kind>"
}

// Eval evaluates one handler.
func (h *SMTPHook) Eval(v HookView) (a SMTPAnswer, d Decision) {
	a = h.Else
	if h.If.Holds(v) {
		a = h.Then
	}
	switch a.Kind {
	case "allow", "defer":
		d = Decision{Answered: true, Action: a.Kind}
	case "deny":
		d = Decision{Answered: true, Action: "deny"}
	case "deny-code":
		d = Decision{Answered: true, Action: "deny", Code: a.Code, HasCode: true}
	case "deny-code-text":
		t := a.Text
		if a.EchoFrom {
			t += " from=" + v.From
		}
		if a.EchoLastTo {
			t += " to=" + v.lastTo()
		}
		if a.EchoCount {
			t += " n=" + strconv.Itoa(len(v.To))
		}
		d = Decision{Answered: true, Action: "deny", Code: a.Code, HasCode: true, Text: t, HasText: true}
	}
	return a, d
}

// SMTPListener is a named listener on a MAIL or RCPT broker; Hook nil = not registered.
type SMTPListener struct {
	Name string
	Hook *SMTPHook
}

// DecideSMTP asks the listeners in order; the first answer counts.
func DecideSMTP(chain []SMTPListener, v HookView) Decision {
	var kinds []string
	for _, l := range chain {
		if l.Hook == nil {
			continue
		}
		a, d := l.Hook.Eval(v)
		kinds = append(kinds, l.Name+":"+a.Kind)
		if d.Answered {
			d.Who, d.Kinds = l.Name, kinds
			return d
		}
	}
	return Decision{Kinds: kinds}
}

// Refused tells whether the command is refused, given the policy's own decision.
func (d Decision) Refused(policyAccepts bool) bool {
	if d.Answered && d.Action == "deny" {
		return true
	}
	if d.Answered && d.Action == "allow" {
		return false
	}
	return !policyAccepts
}

// MsgAnswer is what a before.message_stored handler does in one branch.
type MsgAnswer struct {
	Kind string // nil false nothing garbage error edit fresh
	Form int
	// edit / fresh: which fields the handler sets, and to what
	SetMailboxes, SetFrom, SetTo, SetSubject bool
	Mailboxes                                []string
	From                                     string
	FromNested                               bool // edit only: msg.from.address = From instead of a new address object
	To                                       []string
	Subject                                  string
	SubjectAppend                            bool // edit only: new subject = old subject + Subject
	// non-answering kinds only: before failing the handler writes to its
	// argument - MutateTop: msg.mailboxes / msg.subject; MutateNested:
	// msg.from.address.  Neither may have any effect.
	MutateTop, MutateNested bool
}

// MsgHook is one before.message_stored handler.
type MsgHook struct {
	If         Cond
	Then, Else MsgAnswer
}

// MsgListener is a named listener on the message broker.
type MsgListener struct {
	Name string
	Hook *MsgHook
}

// MsgResult says how the message must be stored.
type MsgResult struct {
	Replaced bool   // a listener returned a message
	Who      string // which one
	Kind     string // kind of the deciding (or, if none answered, the last evaluated) answer
	Kinds    []string
	// Replaced only.  A field that is not "Known" was never set on a fresh
	// message; MailboxesKnown false on an edited message means "as passed in".
	MailboxesKnown, FromKnown, ToKnown, SubjectKnown bool
	Mailboxes, To                                    []string
	From, Subject                                    string
	Mutated                                          string // "" | top | nested | top+nested: an unanswering handler wrote to its argument first
}

// DecideMsg asks the listeners in order; the first returned message counts.
func DecideMsg(chain []MsgListener, v HookView) MsgResult {
	r := MsgResult{Kind: "no-handler"}
	for _, l := range chain {
		if l.Hook == nil {
			continue
		}
		a := l.Hook.Else
		if l.Hook.If.Holds(v) {
			a = l.Hook.Then
		}
		r.Kinds = append(r.Kinds, l.Name+":"+a.Kind)
		r.Kind = a.Kind
		if a.Kind != "edit" && a.Kind != "fresh" {
			for _, m := range []struct {
				on   bool
				name string
			}{{a.MutateTop, "top"}, {a.MutateNested, "nested"}} {
				if m.on && !strings.Contains(r.Mutated, m.name) {
					r.Mutated = strings.TrimPrefix(r.Mutated+"+"+m.name, "+")
				}
			}
			continue
		}
		r.Replaced, r.Who = true, l.Name
		if a.Kind == "edit" { // starts from the message as passed in
			r.FromKnown, r.ToKnown, r.SubjectKnown = true, true, true
			r.From, r.To, r.Subject = v.From, v.To, v.Subject
		}
		if a.SetMailboxes {
			r.MailboxesKnown, r.Mailboxes = true, a.Mailboxes
		}
		if a.SetFrom {
			r.FromKnown, r.From = true, a.From
		}
		if a.SetTo {
			r.ToKnown, r.To = true, a.To
		}
		if a.SetSubject {
			r.SubjectKnown = true
			if a.Kind == "edit" && a.SubjectAppend {
				r.Subject = v.Subject + a.Subject
			} else {
				r.Subject = a.Subject
			}
		}
		return r
	}
	return r
}
