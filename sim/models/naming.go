package models

import "strings"

// Mailbox naming, written from doc/config.md ("Mailbox Naming") and the text
// of property C04 - not from pkg/policy.
//
//	local : domain removed, "+extension" removed, case folded
//	full  : "+extension" removed, local part and domain case folded, joined by "@"
//	domain: local part removed, domain case folded

// SplitAddress splits a RCPT-style address into its unescaped local part and
// domain.  Source routes ("@a,@b:") are dropped, a quoted local part loses its
// quotes, backslash escapes are resolved.  ok=false if there is no local part
// or no domain.
func SplitAddress(addr string) (local, domain string, ok bool) {
	if strings.HasPrefix(addr, "@") {
		i := strings.Index(addr, ":")
		if i < 0 {
			return "", "", false
		}
		addr = addr[i+1:]
	}
	var b strings.Builder
	inQuote, esc := false, false
	at := -1
	for i := 0; i < len(addr); i++ {
		ch := addr[i]
		switch {
		case esc:
			b.WriteByte(ch)
			esc = false
		case ch == '\\':
			esc = true
		case ch == '"':
			inQuote = !inQuote
		case ch == '@' && !inQuote:
			at = i
		default:
			b.WriteByte(ch)
		}
		if at >= 0 {
			break
		}
	}
	if at < 0 {
		return b.String(), "", false
	}
	return b.String(), addr[at+1:], b.Len() > 0 && at+1 < len(addr)
}

// MailboxName returns the mailbox an address names in the given mode.
func MailboxName(mode, addr string) (string, bool) {
	local, domain, ok := SplitAddress(addr)
	if !ok {
		return "", false
	}
	local = strings.ToLower(local)
	if i := strings.Index(local, "+"); i >= 0 {
		local = local[:i]
	}
	domain = strings.ToLower(domain)
	switch mode {
	case "local":
		return local, local != ""
	case "full":
		return local + "@" + domain, local != ""
	case "domain":
		return domain, true
	}
	return "", false
}

// HasDomain reports whether key contains an unquoted, unescaped "@" (it is an
// address rather than a bare mailbox name).  A leading source route is skipped.
func HasDomain(key string) bool {
	if strings.HasPrefix(key, "@") {
		i := strings.Index(key, ":")
		if i < 0 {
			return false
		}
		key = key[i+1:]
	}
	inQuote, esc := false, false
	for i := 0; i < len(key); i++ {
		switch ch := key[i]; {
		case esc:
			esc = false
		case ch == '\\':
			esc = true
		case ch == '"':
			inQuote = !inQuote
		case ch == '@' && !inQuote:
			return true
		}
	}
	return false
}

// LookupName returns the mailbox a read interface must open when a user asks
// for key.  key is either an address (then it names what MailboxName says:
// property C04, "the name computed when mail is received is the same name
// every read interface computes when a user asks for that address") or a
// mailbox name itself, which must be a fixed point ("asking for the mailbox by
// its own name ... reaches the same mailbox") and, like an address, must not
// depend on letter case or a "+extension":
//
//	local : a bare key is a local part: "+extension" removed, case folded
//	full  : every mailbox name contains "@"; a bare key names no mailbox
//	domain: a bare key is a domain: case folded
func LookupName(mode, key string) (string, bool) {
	if HasDomain(key) {
		return MailboxName(mode, key)
	}
	if key == "" {
		return "", false
	}
	switch mode {
	case "local":
		l := strings.ToLower(key)
		if i := strings.Index(l, "+"); i >= 0 {
			l = l[:i]
		}
		return l, l != ""
	case "domain":
		return strings.ToLower(key), true
	}
	return "", false
}
