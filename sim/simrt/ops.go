package simrt

import (
	"reflect"
	"sort"
)

// ---- channel operations (generated code calls these) ----

// Send is `ch <- v` as a scheduling point.
func Send[T any](ch chan<- T, v T) {
	t := Pre("chan send")
	ch <- v
	Post(t)
}

// Recv is `<-ch` as a scheduling point.
func Recv[T any](ch <-chan T) T {
	t := Pre("chan recv")
	v := <-ch
	Post(t)
	return v
}

// Recv2 is `v, ok := <-ch` as a scheduling point.
func Recv2[T any](ch <-chan T) (T, bool) {
	t := Pre("chan recv")
	v, ok := <-ch
	Post(t)
	return v, ok
}

// TryRecv is a non-blocking receive.
func TryRecv[T any](ch <-chan T) (v T, ok bool, got bool) {
	select {
	case v, ok = <-ch:
		return v, ok, true
	default:
		return v, false, false
	}
}

// TrySend is a non-blocking send.
func TrySend[T any](ch chan<- T, v T) bool {
	select {
	case ch <- v:
		return true
	default:
		return false
	}
}

// SendVal returns v typed as the channel's element type.
func SendVal[T any](ch chan<- T, v T) T { return v }

// Zero returns the zero value of the channel's element type.
func Zero[T any](ch <-chan T) (z T) { return z }

// Sel is the state of one rewritten select statement.
type Sel struct {
	t     *Task
	n     int
	start int
}

// SelBegin is the scheduling point of a select with n communication cases.
// Outside a simulation Plain() is true and the generated code falls through
// to the original blocking select.
//
//go:norace
func SelBegin(n int) Sel {
	t := Pre("select")
	if t == nil {
		return Sel{}
	}
	s := t.sim
	start := 0
	if n > 1 {
		start = s.S.Choose(n)
	}
	return Sel{t: t, n: n, start: start}
}

// Plain reports that no simulation is active for this select.
//
//go:norace
func (s Sel) Plain() bool { return s.t == nil }

// Order returns the order in which ready cases are tried.
//
//go:norace
func (s Sel) Order() []int {
	o := make([]int, s.n)
	for i := range o {
		o[i] = (s.start + i) % s.n
	}
	return o
}

// Hit records that case i was taken by a non-blocking try (evidence).
//
//go:norace
func (s Sel) Hit(i int) {}

// End re-acquires the token after the (possibly blocking) select.
//
//go:norace
func (s Sel) End() { Post(s.t) }

// ---- go statements ----

// Go0 .. Go4 start a task evaluating callee and arguments at the go statement.
func Go0(f func()) { Go(fname(f), f) }

// Go1 is `go f(a)`.
func Go1[A any](f func(A), a A) { Go(fname(f), func() { f(a) }) }

// Go2 is `go f(a, b)`.
func Go2[A, B any](f func(A, B), a A, b B) { Go(fname(f), func() { f(a, b) }) }

// Go3 is `go f(a, b, c)`.
func Go3[A, B, C any](f func(A, B, C), a A, b B, c C) { Go(fname(f), func() { f(a, b, c) }) }

// Go4 is `go f(a, b, c, d)`.
func Go4[A, B, C, D any](f func(A, B, C, D), a A, b B, c C, d D) {
	Go(fname(f), func() { f(a, b, c, d) })
}

//go:norace
func fname(f interface{}) string {
	if Active() == nil {
		return ""
	}
	return funcName(reflect.ValueOf(f).Pointer())
}

// ---- map iteration ----

type mapOrder struct {
	ptr  uintptr
	keep interface{} // the map itself, so its address is not reused during the run
	keys []interface{}
	next uint64
}

// MapNote records the first insertion of key k into map m, so that iteration
// over maps with unorderable keys (pointers, interfaces) has a canonical order.
func MapNote[K comparable, V any](m map[K]V, k K) {
	t := Current()
	if t == nil {
		return
	}
	mapNote(t.sim, reflect.ValueOf(m).Pointer(), m, k)
}

//go:norace
func mapEntry(s *Sim, p uintptr) *mapOrder {
	for _, mo := range s.mapReg {
		if mo.ptr == p {
			return mo
		}
	}
	return nil
}

//go:norace
func mapNote(s *Sim, p uintptr, m interface{}, k interface{}) {
	mo := mapEntry(s, p)
	if mo == nil {
		mo = &mapOrder{ptr: p, keep: m}
		s.mapReg = append(s.mapReg, mo)
	}
	for _, x := range mo.keys {
		if x == k {
			return
		}
	}
	mo.keys = append(mo.keys, k)
}

//go:norace
func mapSeq(s *Sim, p uintptr, k interface{}) uint64 {
	if mo := mapEntry(s, p); mo != nil {
		for i, x := range mo.keys {
			if x == k {
				return uint64(i + 1)
			}
		}
	}
	s.counters.add("warn.unordered_map_key", 1)
	return ^uint64(0)
}

//go:norace
func mapPerm(s *Sim, n int) []int {
	s.counters.add("sched.map_range_permuted", 1)
	return s.S.Perm(n)
}

// MapKeys returns the keys of m in an order decided by the run's choice
// source (a permutation of a canonical order).  Outside a simulation the
// order is Go's own.
func MapKeys[K comparable, V any](m map[K]V) []K {
	keys := make([]K, 0, len(m))
	for k := range m {
		keys = append(keys, k)
	}
	t := Current()
	if t == nil || len(keys) < 2 {
		return keys
	}
	s := t.sim
	var zero K
	switch any(zero).(type) {
	case string:
		sort.Slice(keys, func(i, j int) bool { return any(keys[i]).(string) < any(keys[j]).(string) })
	case int:
		sort.Slice(keys, func(i, j int) bool { return any(keys[i]).(int) < any(keys[j]).(int) })
	case int64:
		sort.Slice(keys, func(i, j int) bool { return any(keys[i]).(int64) < any(keys[j]).(int64) })
	case uint64:
		sort.Slice(keys, func(i, j int) bool { return any(keys[i]).(uint64) < any(keys[j]).(uint64) })
	default:
		p := reflect.ValueOf(m).Pointer()
		seqs := make([]uint64, len(keys))
		for i, k := range keys {
			seqs[i] = mapSeq(s, p, k)
		}
		idx := make([]int, len(keys))
		for i := range idx {
			idx[i] = i
		}
		sort.SliceStable(idx, func(a, b int) bool { return seqs[idx[a]] < seqs[idx[b]] })
		sorted := make([]K, len(keys))
		for i, j := range idx {
			sorted[i] = keys[j]
		}
		keys = sorted
	}
	p := mapPerm(s, len(keys))
	out := make([]K, len(keys))
	for i, j := range p {
		out[i] = keys[j]
	}
	return out
}
