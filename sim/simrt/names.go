package simrt

import (
	"runtime"
	"strings"
)

//go:norace
func funcName(pc uintptr) string {
	f := runtime.FuncForPC(pc)
	if f == nil {
		return "func"
	}
	n := f.Name()
	if i := strings.LastIndex(n, "/"); i >= 0 {
		n = n[i+1:]
	}
	return n
}
