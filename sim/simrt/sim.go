// Package simrt is the deterministic token scheduler every simulated run is
// executed under.  Exactly one task executes Inbucket or harness code at any
// time; which one is decided by the run's choice source at every scheduling
// point (lock, channel operation, connection operation, file-system step, go
// statement).  The package degrades to the plain Go operation when no
// simulation is active or when the caller is not a simulated task, so
// instrumented code behaves exactly like the original outside a simulation.
package simrt

import (
	"fmt"
	"hash/fnv"
	"runtime"
	"runtime/debug"
	"strings"
	"sync"
	"sync/atomic"
	"time"
)

// TaskState is the scheduler's view of a task.
type TaskState int32

// Task states.
const (
	TsReady   TaskState = iota // wants the token
	TsRunning                  // holds the token
	TsInOp                     // blocked inside a real Go operation (channel, timer); token revoked
	TsWaiting                  // parked in a simulated primitive (mutex, conn, join); needs MakeReady
	TsDone
)

//go:norace
func (s TaskState) String() string {
	return [...]string{"ready", "running", "in-op", "waiting", "done"}[s]
}

// Task is one simulated goroutine.
type Task struct {
	ID    int
	Name  string
	sim   *Sim
	wake  chan struct{}
	state TaskState
	label string // what it is doing / waiting for
	low   bool   // quiescence waiter: scheduled only when nothing else is ready
	prio  int
	wgen  uint64
	tmo   bool
	join  []*Task // tasks waiting for this one to end
	// RaceCtx is used by race mode to publish happens-before edges.
	RaceCtx uintptr
}

// Verdict of a run as far as the scheduler can tell.
type Verdict int

// Verdicts.
const (
	VOK       Verdict = iota
	VCrash            // a task panicked (an unrecovered panic kills the real process)
	VDeadlock         // every task blocked, no timer pending, main not finished
	VSteps            // step budget exhausted
	VSimTime          // simulated-time budget exhausted
)

//go:norace
func (v Verdict) String() string {
	return [...]string{"ok", "crash", "deadlock", "step-budget", "simtime-budget"}[v]
}

// Config of one run.
type Config struct {
	MaxSteps   int           // scheduling decisions (default 200000)
	MaxSimTime time.Duration // simulated time (default 24h)
	LogCap     int           // max retained log lines (default 4000)
	NoJumps    bool          // never inject scheduler-level clock jumps
}

// Sim is one simulated run.
type Sim struct {
	mu      sync.Mutex // guards task states against token-less Post/timer goroutines
	cfg     Config
	S       *Choices
	tasks   []*Task
	byGoid  goidTab
	cur     *Task
	last    *Task
	kick    chan struct{}
	stopped atomic.Bool
	gen     uint64

	Steps     int
	start     time.Time
	verdict   Verdict
	crashMsg  string
	crashTask string
	crashStk  string
	mainDone  bool

	policy   int // 0 uniform, 1 sticky, 2 pct
	stickyP  int
	jumpDen  int
	pctCP    map[int]bool
	schedH   uint64
	nChoice2 int // decisions with >=2 ready tasks

	log     []string
	logN    int
	logHash uint64

	counters counterTab
	mapReg   []*mapOrder
	vals     valTab // free for seams/harness (per-run singletons)
	// LogNorm, if set, rewrites every log line before it is hashed and stored
	// (used to replace process-dependent id text by per-run canonical names).
	LogNorm func(string) string
}

var active atomic.Pointer[Sim]
var simGen atomic.Uint64

// WaitQuiescent must be set (by package simrun) to synctest.Wait.
var WaitQuiescent func()

// Active returns the running simulation or nil.
//
//go:norace
func Active() *Sim { return active.Load() }

//go:norace
func goid() uint64 {
	var buf [40]byte
	n := runtime.Stack(buf[:], false)
	// "goroutine 123 ["
	var id uint64
	for i := 10; i < n; i++ {
		c := buf[i]
		if c < '0' || c > '9' {
			break
		}
		id = id*10 + uint64(c-'0')
	}
	return id
}

// Current returns the calling goroutine's task, or nil when no simulation is
// active or the caller is not a task of it.
//
//go:norace
func Current() *Task {
	s := active.Load()
	if s == nil {
		return nil
	}
	id := goid()
	s.lock()
	t := s.byGoid.get(id)
	s.unlock()
	return t
}

// Sim returns the simulation the task belongs to.
//
//go:norace
func (t *Task) Sim() *Sim { return t.sim }

// Gen identifies the run (used by seams to discard state of earlier runs).
//
//go:norace
func (s *Sim) Gen() uint64 { return s.gen }

// Now is the simulated time elapsed since the run started.
//
//go:norace
func (s *Sim) Now() time.Duration { return time.Since(s.start) }

// Count adds to a named counter (evidence).
//
//go:norace
func (s *Sim) Count(name string, d int64) { s.counters.add(name, d) }

// Count adds to a counter of the active simulation, if any.
//
//go:norace
func Count(name string, d int64) {
	if s := active.Load(); s != nil {
		if t := Current(); t != nil {
			s.counters.add(name, d)
		}
	}
}

// Logf appends a line to the run's event log.  Only the token holder or the
// scheduler may call it.  It never draws a choice and never reads a real clock.
//
//go:norace
func (s *Sim) Logf(format string, a ...interface{}) {
	line := fmt.Sprintf("%6d %s", s.Steps, fmt.Sprintf(format, a...))
	if s.LogNorm != nil {
		line = s.LogNorm(line)
	}
	h := fnv.New64a()
	var b [8]byte
	for i := 0; i < 8; i++ {
		b[i] = byte(s.logHash >> (8 * i))
	}
	h.Write(b[:])
	h.Write([]byte(line))
	s.logHash = h.Sum64()
	s.logN++
	if len(s.log) < s.cfg.LogCap {
		s.log = append(s.log, line)
	}
}

// Logf logs to the active simulation when called from one of its tasks.
//
//go:norace
func Logf(format string, a ...interface{}) {
	if t := Current(); t != nil {
		t.sim.Logf(format, a...)
	}
}

//go:norace
func (s *Sim) lock() { raceOff(); s.mu.Lock() }

//go:norace
func (s *Sim) unlock() { s.mu.Unlock(); raceOn() }

//go:norace
func (s *Sim) kickSched() {
	raceOff()
	select {
	case s.kick <- struct{}{}:
	default:
	}
	raceOn()
}

//go:norace
func parkForever() { select {} }

// park gives the token up (state must already be set) and waits for a grant.
//
//go:norace
func (t *Task) park() {
	// Race mode: what this task did so far happens before the NEXT run in this
	// process (Run acquires runEpoch first thing).  Nobody acquires it within a
	// run, so no edge between the tasks of one run results.  Without it a report
	// could pair an access of this run with one of an earlier run and would not
	// reproduce when the run is replayed alone.
	RaceRelease(&runEpoch)
	raceOff()
	if t.sim.stopped.Load() {
		parkForever()
	}
	<-t.wake
	if t.sim.stopped.Load() {
		parkForever()
	}
	raceOn()
}

// runEpoch orders the runs of one worker process for the race detector (see park).
var runEpoch [8]byte

// Yield is a scheduling point: any ready task may run next.
//
//go:norace
func (t *Task) Yield(label string) {
	s := t.sim
	s.lock()
	t.state = TsReady
	t.label = label
	s.unlock()
	t.park()
}

// Block parks the task until another task (or a timer) calls MakeReady.
//
//go:norace
func (t *Task) Block(label string) {
	s := t.sim
	s.lock()
	t.state = TsWaiting
	t.label = label
	s.unlock()
	t.park()
}

// BlockUntil is Block with a deadline (zero = none); reports a timeout.
//
//go:norace
func (t *Task) BlockUntil(label string, deadline time.Time) (timedOut bool) {
	var tm *time.Timer
	t.wgen++
	gen := t.wgen
	t.tmo = false
	if !deadline.IsZero() {
		d := time.Until(deadline)
		if d <= 0 {
			return true
		}
		tm = time.AfterFunc(d, func() { t.onTimeout(gen) })
	}
	t.Block(label)
	if tm != nil {
		tm.Stop()
	}
	t.wgen++
	return t.tmo
}

//go:norace
func (t *Task) onTimeout(gen uint64) {
	s := t.sim
	s.lock()
	if t.state == TsWaiting && t.wgen == gen {
		t.state = TsReady
		t.tmo = true
	}
	s.unlock()
	s.kickSched()
}

// MakeReady moves a waiting task to the ready set.
//
//go:norace
func (s *Sim) MakeReady(t *Task) {
	s.lock()
	if t.state == TsWaiting {
		t.state = TsReady
	}
	s.unlock()
	s.kickSched()
}

// Pre is the scheduling point before a real, possibly blocking Go operation.
// It returns the calling task (nil outside a simulation) for Post.
//
//go:norace
func Pre(label string) *Task {
	t := Current()
	if t == nil {
		return nil
	}
	t.Yield(label)
	return t
}

// Post re-acquires the token after a real operation if it was revoked while
// the task was blocked inside it.
//
//go:norace
func Post(t *Task) {
	if t == nil {
		return
	}
	s := t.sim
	s.lock()
	if s.cur == t && t.state == TsRunning {
		s.unlock()
		return
	}
	t.state = TsReady
	s.unlock()
	if s.stopped.Load() {
		parkForever()
	}
	s.kickSched()
	t.park()
}

// Go starts f as a new task.  Outside a simulation it is a plain go statement.
//
//go:norace
func Go(name string, f func()) *Task {
	cur := Current()
	if cur == nil {
		go f()
		return nil
	}
	return cur.sim.spawn(name, f)
}

//go:norace
func (s *Sim) spawn(name string, f func()) *Task {
	s.lock()
	t := &Task{ID: len(s.tasks), Name: name, sim: s, wake: make(chan struct{}, 1), state: TsReady, label: "start"}
	if !s.S.IsReplay() {
		t.prio = s.S.Rand(1 << 20)
	}
	s.tasks = append(s.tasks, t)
	s.unlock()
	go s.taskMain(t, f)
	return t
}

//go:norace
func (s *Sim) taskMain(t *Task, f func()) {
	id := goid()
	s.lock()
	s.byGoid.set(id, t)
	s.unlock()
	t.park()
	defer s.taskExit(t, id)
	f()
}

//go:norace
func (s *Sim) taskExit(t *Task, id uint64) {
	r := recover()
	var stk string
	if r != nil {
		stk = string(debug.Stack())
	}
	// everything this task did happens-before whoever joins it
	RaceRelease(&t.RaceCtx)
	RaceRelease(&runEpoch) // ... and before the next run in this process (see park)
	s.lock()
	if r != nil && s.verdict == VOK {
		s.verdict = VCrash
		s.crashMsg = fmt.Sprint(r)
		s.crashTask = t.Name
		s.crashStk = stk
	}
	t.state = TsDone
	s.byGoid.del(id)
	for _, j := range t.join {
		if j.state == TsWaiting {
			j.state = TsReady
		}
	}
	t.join = nil
	s.unlock()
}

// Join blocks the calling task until t has ended.
//
//go:norace
func (t *Task) Join(other *Task) {
	s := t.sim
	for {
		s.lock()
		if other.state == TsDone {
			s.unlock()
			RaceAcquire(&other.RaceCtx)
			return
		}
		other.join = append(other.join, t)
		t.state = TsWaiting
		t.label = "join " + other.Name
		s.unlock()
		t.park()
	}
}

// JoinTimeout waits for other to end, at most d of simulated time; reports
// whether it ended.
//
//go:norace
func (t *Task) JoinTimeout(other *Task, d time.Duration) bool {
	s := t.sim
	deadline := time.Now().Add(d)
	for {
		s.lock()
		if other.state == TsDone {
			s.unlock()
			RaceAcquire(&other.RaceCtx)
			return true
		}
		other.join = append(other.join, t)
		s.unlock()
		if !time.Now().Before(deadline) {
			return false
		}
		t.BlockUntil("join "+other.Name, deadline)
	}
}

// Done reports whether the task has ended.
//
//go:norace
func (t *Task) Done() bool {
	t.sim.lock()
	defer t.sim.unlock()
	return t.state == TsDone
}

// Quiesce parks the calling task until no other task is ready to run: every
// other task is finished, waiting, or blocked on a timer that has not fired.
//
//go:norace
func (t *Task) Quiesce() {
	t.low = true
	t.Yield("quiesce")
	t.low = false
}

// Sleep is time.Sleep as a scheduling point.
//
//go:norace
func Sleep(d time.Duration) {
	t := Pre("sleep")
	time.Sleep(d)
	Post(t)
}

// Result of a run.
type Result struct {
	Verdict   Verdict
	CrashMsg  string
	CrashTask string
	CrashStk  string
	Blocked   []string // task name: state (label) for unfinished tasks
	Steps     int
	SimTime   time.Duration
	Log       []string
	LogLines  int
	LogHash   uint64
	SchedHash uint64
	Choices2  int
	Counters  map[string]int64
	S         []uint32
}

var jumpTable = []time.Duration{
	time.Millisecond, 40 * time.Millisecond, time.Second, 7 * time.Second, time.Minute,
	6 * time.Minute, 31 * time.Minute, 3 * time.Hour,
}

// New prepares a simulation (call inside the bubble) without starting it.
//
//go:norace
func New(cfg Config, S *Choices) *Sim {
	if cfg.MaxSteps == 0 {
		cfg.MaxSteps = 200000
	}
	if cfg.MaxSimTime == 0 {
		cfg.MaxSimTime = 24 * time.Hour
	}
	if cfg.LogCap == 0 {
		cfg.LogCap = 4000
	}
	s := &Sim{
		cfg: cfg, S: S, kick: make(chan struct{}, 1),
		gen: simGen.Add(1), start: time.Now(),
	}
	// Per-run scheduling policy (swarm).  Consumed identically in replay.
	s.policy = S.Choose(3)
	s.stickyP = []int{50, 80, 95}[S.Choose(3)]
	if !cfg.NoJumps {
		s.jumpDen = []int{0, 0, 400, 60}[S.Choose(4)]
	}
	if s.policy == 2 && !S.IsReplay() {
		s.pctCP = map[int]bool{}
		d := 1 + S.Rand(4)
		for i := 0; i < d; i++ {
			s.pctCP[S.Rand(3000)] = true
		}
	}
	return s
}

// Run executes mainFn as task "main" under the scheduler and returns when it
// has finished, a task crashed, or a budget ran out.  It must be called from
// the bubble's root goroutine.  On a deadlock it never returns (synctest
// panics in the goroutine that called synctest.Test); use Snapshot then.
//
//go:norace
func (s *Sim) Run(mainFn func(t *Task)) *Result {
	RaceAcquire(&runEpoch)
	active.Store(s)
	var mt *Task
	mt = s.spawn("main", func() {
		mainFn(mt)
		s.mainDone = true
	})
	raceOff() // from here on the scheduler's own synchronisation is invisible to the race detector
	defer raceOn()
	for {
		WaitQuiescent()
		s.lock()
		if s.cur != nil && s.cur.state == TsRunning {
			s.cur.state = TsInOp
		}
		s.cur = nil
		if s.mainDone || s.verdict != VOK {
			s.unlock()
			break
		}
		var ready, low []*Task
		for _, t := range s.tasks {
			if t.state == TsReady {
				if t.low {
					low = append(low, t)
				} else {
					ready = append(ready, t)
				}
			}
		}
		if len(ready) == 0 {
			ready = low
		}
		if len(ready) == 0 {
			s.unlock()
			if time.Since(s.start) > s.cfg.MaxSimTime {
				s.verdict = VSimTime
				break
			}
			<-s.kick // bubble idle: the fake clock may advance to the next timer
			continue
		}
		s.Steps++
		if s.Steps > s.cfg.MaxSteps {
			s.verdict = VSteps
			s.unlock()
			break
		}
		if time.Since(s.start) > s.cfg.MaxSimTime {
			s.verdict = VSimTime
			s.unlock()
			break
		}
		s.unlock()
		// Optional clock jump: the whole process stalls for d of simulated time.
		if s.jumpDen > 0 && s.S.Choose(s.jumpDen) == 1 {
			d := jumpTable[s.S.Choose(len(jumpTable))]
			s.counters.add("fault.clock_jump", 1)
			s.Logf("clock jump %v", d)
			time.Sleep(d)
			continue // re-collect: timers may have made more tasks ready
		}
		t := s.pick(ready)
		s.lock()
		t.state = TsRunning
		s.cur = t
		s.last = t
		s.unlock()
		t.wake <- struct{}{}
	}
	s.stopped.Store(true)
	active.CompareAndSwap(s, nil)
	return s.Snapshot()
}

//go:norace
func (s *Sim) pick(ready []*Task) *Task {
	if len(ready) == 1 {
		return ready[0]
	}
	// canonical order: last-run task first, then by id (insertion sort: no closure)
	for i := 1; i < len(ready); i++ {
		for j := i; j > 0 && s.before(ready[j], ready[j-1]); j-- {
			ready[j], ready[j-1] = ready[j-1], ready[j]
		}
	}
	k := s.S.ChooseWith(len(ready), func(c *Choices) int { return s.policyPick(ready) })
	s.nChoice2++
	s.schedH = s.schedH*1099511628211 ^ uint64(ready[k].ID+1)
	return ready[k]
}

//go:norace
func (s *Sim) before(a, b *Task) bool {
	if (a == s.last) != (b == s.last) {
		return a == s.last
	}
	return a.ID < b.ID
}

// policyPick is the generate-mode scheduling policy.
//
//go:norace
func (s *Sim) policyPick(ready []*Task) int {
	c := s.S
	switch s.policy {
	case 1: // sticky
		if ready[0] == s.last && c.Rand(100) < s.stickyP {
			return 0
		}
		return c.Rand(len(ready))
	case 2: // PCT-style priorities
		if s.pctCP[s.Steps] && s.last != nil {
			s.last.prio = -s.Steps
		}
		best := 0
		for i, t := range ready {
			if t.prio > ready[best].prio {
				best = i
			}
		}
		return best
	}
	return c.Rand(len(ready))
}

// Snapshot builds the result from the current state; safe once every task is
// blocked (after Run returned or after synctest reported a deadlock).
//
//go:norace
func (s *Sim) Snapshot() *Result {
	s.lock()
	defer s.unlock()
	r := &Result{
		Verdict: s.verdict, CrashMsg: s.crashMsg, CrashTask: s.crashTask, CrashStk: s.crashStk,
		Steps: s.Steps, SimTime: time.Since(s.start), Log: s.log, LogLines: s.logN,
		LogHash: s.logHash, SchedHash: s.schedH, Choices2: s.nChoice2, Counters: s.counters.toMap(),
		S: s.S.Rec,
	}
	for _, t := range s.tasks {
		if t.state != TsDone {
			r.Blocked = append(r.Blocked, fmt.Sprintf("%s: %s (%s)", t.Name, t.state, t.label))
		}
	}
	return r
}

// MarkDeadlock records that synctest found every goroutine blocked.
//
//go:norace
func (s *Sim) MarkDeadlock() {
	s.lock()
	if s.verdict == VOK && !s.mainDone {
		s.verdict = VDeadlock
	}
	s.unlock()
	s.stopped.Store(true)
	active.CompareAndSwap(s, nil)
}

// MainDone reports whether the main task returned.
//
//go:norace
func (s *Sim) MainDone() bool { return s.mainDone }

// TaskDump lists all tasks with their states (diagnostics).
//
//go:norace
func (s *Sim) TaskDump() string {
	s.lock()
	defer s.unlock()
	var b strings.Builder
	for _, t := range s.tasks {
		fmt.Fprintf(&b, "%d %s %s (%s)\n", t.ID, t.Name, t.state, t.label)
	}
	return b.String()
}

// ---- small tables instead of Go maps: the runtime's map functions report to
// the race detector on behalf of their caller even inside //go:norace code, and
// simulator state is deliberately invisible to it ----

type goidTab struct {
	ids []uint64
	ts  []*Task
}

//go:norace
func (g *goidTab) get(id uint64) *Task {
	for i, x := range g.ids {
		if x == id {
			return g.ts[i]
		}
	}
	return nil
}

//go:norace
func (g *goidTab) set(id uint64, t *Task) {
	g.ids = append(g.ids, id)
	g.ts = append(g.ts, t)
}

//go:norace
func (g *goidTab) del(id uint64) {
	// element-wise: copy()/append(a, b...) go through runtime.slicecopy, which reports to the
	// race detector on the caller's behalf
	for i, x := range g.ids {
		if x == id {
			for j := i; j+1 < len(g.ids); j++ {
				g.ids[j] = g.ids[j+1]
				g.ts[j] = g.ts[j+1]
			}
			g.ids = g.ids[:len(g.ids)-1]
			g.ts = g.ts[:len(g.ts)-1]
			return
		}
	}
}

type counterTab struct {
	keys []string
	vals []int64
}

//go:norace
func (c *counterTab) add(k string, d int64) {
	for i, x := range c.keys {
		if x == k {
			c.vals[i] += d
			return
		}
	}
	c.keys = append(c.keys, k)
	c.vals = append(c.vals, d)
}

//go:norace
func (c *counterTab) toMap() map[string]int64 {
	m := make(map[string]int64, len(c.keys))
	for i, k := range c.keys {
		m[k] = c.vals[i]
	}
	return m
}

type valTab struct {
	keys []string
	vals []interface{}
}

// SetVal stores a per-run singleton (seams, harness).
//
//go:norace
func (s *Sim) SetVal(k string, v interface{}) {
	for i, x := range s.vals.keys {
		if x == k {
			s.vals.vals[i] = v
			return
		}
	}
	s.vals.keys = append(s.vals.keys, k)
	s.vals.vals = append(s.vals.vals, v)
}

// Val returns a per-run singleton or nil.
//
//go:norace
func (s *Sim) Val(k string) interface{} {
	for i, x := range s.vals.keys {
		if x == k {
			return s.vals.vals[i]
		}
	}
	return nil
}
