//go:build !race

package simrt

// RaceEnabled reports whether the binary was built with -race.
const RaceEnabled = false

func raceFork(t *Task)      {}
func raceTaskStart(t *Task) {}
func raceGrant(t *Task)     {}

// RaceAcquire / RaceRelease publish a happens-before edge on addr (race mode only).
func RaceAcquire(addr interface{}) {}

// RaceRelease see RaceAcquire.
func RaceRelease(addr interface{}) {}
