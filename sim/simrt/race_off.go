//go:build !race

package simrt

// RaceEnabled reports whether the binary was built with -race.
const RaceEnabled = false

func raceOff() {}
func raceOn()  {}

// RaceAcquire / RaceRelease publish a happens-before edge on addr (race mode only).
func RaceAcquire(addr interface{}) {}

// RaceRelease see RaceAcquire.
func RaceRelease(addr interface{}) {}

// RaceErrors is the number of data races reported so far (race mode only).
func RaceErrors() int { return 0 }
