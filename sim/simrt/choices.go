package simrt

// Choices is the single source of every decision taken in a run: which task
// runs next, how a write is segmented, which fault fires, which operation a
// workload generator emits.  In generate mode the answers come from a PRNG
// seeded with one integer; every answer is recorded.  In replay mode the
// answers come from a recorded list (value mod n; 0 once exhausted - 0 always
// means "simplest": first ready task, no fault, no delay, smallest size).
type Choices struct {
	state  uint64 // splitmix64 state (generate mode)
	replay []uint32
	isRep  bool
	pos    int
	Rec    []uint32 // every answer given, in order
}

// NewChoices returns a generating choice source.
//
//go:norace
func NewChoices(seed uint64) *Choices {
	return &Choices{state: seed*0x9E3779B97F4A7C15 + 0x1234567}
}

// ReplayChoices returns a choice source answering from rec.
//
//go:norace
func ReplayChoices(rec []uint32) *Choices {
	return &Choices{replay: rec, isRep: true}
}

// IsReplay reports whether answers come from a recording.
//
//go:norace
func (c *Choices) IsReplay() bool { return c.isRep }

//go:norace
func (c *Choices) next64() uint64 {
	c.state += 0x9E3779B97F4A7C15
	z := c.state
	z = (z ^ (z >> 30)) * 0xBF58476D1CE4E5B9
	z = (z ^ (z >> 27)) * 0x94D049BB133111EB
	return z ^ (z >> 31)
}

// Choose returns the next answer in [0,n).
//
//go:norace
func (c *Choices) Choose(n int) int {
	if n <= 1 {
		return 0
	}
	var k int
	if c.isRep {
		if c.pos < len(c.replay) {
			k = int(c.replay[c.pos] % uint32(n))
		}
		c.pos++
	} else {
		k = int(c.next64() % uint64(n))
	}
	c.Rec = append(c.Rec, uint32(k))
	return k
}

// ChooseWith records an answer that is computed by a policy (generate mode) so
// that replay reproduces it; in replay mode it returns the recorded answer.
// gen is only evaluated in generate mode.
//
//go:norace
func (c *Choices) ChooseWith(n int, gen func(c *Choices) int) int {
	if n <= 1 {
		return 0
	}
	var k int
	if c.isRep {
		if c.pos < len(c.replay) {
			k = int(c.replay[c.pos] % uint32(n))
		}
		c.pos++
	} else {
		k = gen(c)
		if k < 0 || k >= n {
			k = 0
		}
	}
	c.Rec = append(c.Rec, uint32(k))
	return k
}

// Rand returns a value in [0,n) that is NOT recorded individually.  It must
// only be used inside a ChooseWith generator (policy randomness).
//
//go:norace
func (c *Choices) Rand(n int) int {
	if n <= 1 {
		return 0
	}
	return int(c.next64() % uint64(n))
}

// Bool is Choose(2)==1.
//
//go:norace
func (c *Choices) Bool() bool { return c.Choose(2) == 1 }

// Prob returns true with probability num/den; false is the "simple" answer.
//
//go:norace
func (c *Choices) Prob(num, den int) bool {
	if num <= 0 {
		return false
	}
	return c.Choose(den) >= den-num
}

// Range returns a value in [lo,hi].
//
//go:norace
func (c *Choices) Range(lo, hi int) int {
	if hi <= lo {
		return lo
	}
	return lo + c.Choose(hi-lo+1)
}

// Perm returns a permutation of 0..n-1 (identity when all answers are 0).
//
//go:norace
func (c *Choices) Perm(n int) []int {
	p := make([]int, n)
	for i := range p {
		p[i] = i
	}
	for i := 0; i < n-1; i++ {
		j := i + c.Choose(n-i)
		p[i], p[j] = p[j], p[i]
	}
	return p
}

// Consumed is the number of answers given so far.
//
//go:norace
func (c *Choices) Consumed() int { return len(c.Rec) }
