//go:build race

package simrt

import (
	"reflect"
	"runtime"
	"unsafe"
)

// RaceEnabled reports whether the binary was built with -race.
const RaceEnabled = true

// raceOff / raceOn bracket the simulator's own synchronisation (token hand-off
// through channels and a mutex), which must not create happens-before edges
// between tasks: only the program's own synchronisation may.
//
//go:norace
func raceOff() { runtime.RaceDisable() }

//go:norace
func raceOn() { runtime.RaceEnable() }

//go:norace
func addrOf(p interface{}) unsafe.Pointer {
	return unsafe.Pointer(reflect.ValueOf(p).Pointer())
}

// RaceAcquire publishes "everything released on p happens before what follows".
//
//go:norace
func RaceAcquire(p interface{}) { runtime.RaceAcquire(addrOf(p)) }

// RaceRelease publishes "everything so far happens before later acquirers of p".
//
//go:norace
func RaceRelease(p interface{}) { runtime.RaceReleaseMerge(addrOf(p)) }

// RaceErrors is the number of data races reported so far.
func RaceErrors() int { return runtime.RaceErrors() }
