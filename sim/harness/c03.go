package harness

import (
	"bytes"
	"fmt"
	"os"
	"sort"
	"strings"
	"time"

	"github.com/inbucket/inbucket/v3/pkg/extension"
	"github.com/inbucket/inbucket/v3/vsim/simnet"
	"github.com/inbucket/inbucket/v3/vsim/simrt"
)

// C03: SMTP transactions are well-sequenced, isolated from each other and
// atomic; every line gets exactly one well-formed reply; no input crashes or
// wedges the server; a cut at any byte leaves acknowledged mail, at most the
// one fully transmitted message more, never a partial or phantom message.

type c03Line struct {
	Kind string // helo ehlo mail mailbad rcpt rcptbad data rset noop vrfy quit authplain authlogin authbad starttls unimpl unknown long garbage empty short
	Text string // the line as sent (without CRLF); for data: unused
	Rcpt string
	Tok  string
}

type c03Case struct {
	Mode    string // A: command history, B: cut enumeration, S: stall, P: the same valid dialogue sent ahead of the replies
	Pipe    int    // mode P: 0 the whole dialogue in one write; 1 one write per transaction; 2 commands up to DATA in one write, data and the next commands in the next
	Store   StoreCfg
	Net     simnet.Profile
	Lines   []c03Line // mode A
	Txns    []smtpTxn // mode B/S: a valid dialogue
	Cuts    []int     // mode B: byte offsets at which to cut (-1 = every offset)
	RST     bool
	Timeout time.Duration
	Fault   fsFault // mode A, file back-end: armed when DATA line number Target sends its data
}

func (k *c03Case) Describe() []string {
	l := []string{fmt.Sprintf("mode=%s store=%s %s timeout=%v rst=%v", k.Mode, k.Store, profileString(k.Net), k.Timeout, k.RST)}
	if k.Fault.On {
		l = append(l, k.Fault.String())
	}
	for i, ln := range k.Lines {
		l = append(l, fmt.Sprintf("%3d %s %q", i, ln.Kind, clipStr(ln.Text, 80)))
	}
	for i, t := range k.Txns {
		l = append(l, fmt.Sprintf("txn%d %s", i, t))
	}
	if k.Mode == "B" {
		l = append(l, fmt.Sprintf("cuts %v", k.Cuts))
	}
	return l
}

func mixCase(w *simrt.Choices, s string) string {
	b := []byte(s)
	for i := range b {
		if w.Choose(2) == 1 {
			b[i] = bytes.ToUpper(b[i : i+1])[0]
		} else {
			b[i] = bytes.ToLower(b[i : i+1])[0]
		}
	}
	return string(b)
}

var c03Kinds = []string{"helo", "ehlo", "mail", "mail", "mail", "mailbad", "rcpt", "rcpt", "rcpt", "rcpt", "rcptbad", "data", "data", "data",
	"rset", "noop", "vrfy", "authplain", "authlogin", "authbad", "starttls", "unimpl", "unknown", "long", "garbage", "empty", "short"}

func genC03(w *simrt.Choices, tier string, avoid map[string]bool) Case {
	k := &c03Case{Store: StoreCfg{Backend: "mem"}, Net: netProfile(w)}
	if w.Choose(4) == 0 {
		k.Store.Backend = "file"
	}
	k.Timeout = []time.Duration{30 * time.Second, 60 * time.Second, 300 * time.Second}[w.Choose(3)]
	k.RST = w.Choose(2) == 1
	switch w.Choose(6) {
	case 0, 1, 2:
		k.Mode = "A"
	case 3:
		k.Mode = "B"
	case 4:
		k.Mode = "S"
	default:
		k.Mode = "P"
	}
	tok := 0
	if k.Mode == "A" {
		n := 4 + w.Choose(30)
		if !avoid["no-greeting-first"] || true {
			// most histories start with a greeting so the rest is reachable
			if w.Choose(5) != 0 {
				k.Lines = append(k.Lines, c03Line{Kind: "ehlo", Text: "EHLO client.sim"})
			}
		}
		for i := 0; i < n; i++ {
			kind := c03Kinds[w.Choose(len(c03Kinds))]
			if avoid["rset-before-greeting"] && kind == "rset" && !hasGreeting(k.Lines) {
				kind = "noop"
			}
			ln := c03Line{Kind: kind}
			switch kind {
			case "helo":
				ln.Text = "HELO client.sim"
			case "ehlo":
				ln.Text = "EHLO client.sim"
			case "mail":
				ln.Text = "MAIL FROM:<sender" + fmt.Sprint(i) + "@origin.test>" + []string{"", " SIZE=1000", " BODY=8BITMIME"}[w.Choose(3)]
			case "mailbad":
				ln.Text = []string{"MAIL", "MAIL FROM:", "MAIL FROM:x@y", "MAIL TO:<a@b.test>", "MAIL FROM:<a@b.test> SIZE=abc"}[w.Choose(5)]
			case "rcpt":
				ln.Rcpt = smtpLocals[w.Choose(6)] + fmt.Sprint(w.Choose(3)) + "@" + smtpDomains[w.Choose(len(smtpDomains))]
				ln.Text = "RCPT TO:<" + ln.Rcpt + ">"
			case "rcptbad":
				ln.Text = []string{"RCPT", "RCPT TO:", "RCPT FROM:<a@b.test>", "RCPT TO:<no-at-sign>", "RCPT TO:<a b@c.test>"}[w.Choose(5)]
			case "data":
				tok++
				ln.Tok = fmt.Sprintf("tok%d", tok)
				ln.Text = "DATA"
			case "rset":
				ln.Text = "RSET"
			case "noop":
				ln.Text = "NOOP"
			case "vrfy":
				ln.Text = "VRFY someone"
			case "authplain":
				ln.Text = "AUTH PLAIN AGFiYwBkZWY="
			case "authlogin":
				ln.Text = "AUTH LOGIN"
			case "authbad":
				ln.Text = []string{"AUTH", "AUTH PLAIN", "AUTH CRAM-MD5", "AUTH PLAIN a b c"}[w.Choose(4)]
			case "starttls":
				ln.Text = "STARTTLS"
			case "unimpl":
				ln.Text = []string{"SEND FROM:<a@b.test>", "SOML x", "SAML x", "EXPN list", "HELP", "TURN"}[w.Choose(6)]
			case "unknown":
				ln.Text = []string{"FOOB", "XYZZY arg", "MAILX FROM:<a@b.test>", "DATAX"}[w.Choose(4)]
			case "long":
				ln.Text = []string{"NOOP ", "MAIL FROM:<", "FOOO", ""}[w.Choose(4)] + strings.Repeat("x", []int{600, 4096, 70000, 100000}[w.Choose(4)])
			case "garbage":
				ln.Text = string(bodyFromSeed(uint64(w.Choose(1<<16)), "", 20+w.Choose(60))[13:])
				ln.Text = strings.NewReplacer("\n", "\x01", "\r", "\x02").Replace(ln.Text) + "\x00\xff\xfe"
			case "empty":
				ln.Text = ""
			case "short":
				ln.Text = []string{"AB", "Q", "RS T", "   "}[w.Choose(4)]
			}
			if w.Choose(5) == 0 && kind != "garbage" && kind != "long" {
				// mixed case for the verb part
				if sp := strings.IndexAny(ln.Text, " :"); sp > 0 {
					ln.Text = mixCase(w, ln.Text[:sp]) + ln.Text[sp:]
				} else {
					ln.Text = mixCase(w, ln.Text)
				}
			}
			k.Lines = append(k.Lines, ln)
		}
		if w.Choose(3) == 0 {
			// a second session delivers valid mail at the same time: sessions are isolated from each other
			for i, nt := 0, 1+w.Choose(2); i < nt; i++ {
				t := smtpTxn{Token: fmt.Sprintf("bg%d", i), From: "good@example.org", End: "data", Extra: []int{0, 40, 400}[w.Choose(3)]}
				if i == 0 {
					t.Greet = "EHLO"
				}
				for j, nr := 0, 1+w.Choose(2); j < nr; j++ {
					t.Rcpts = append(t.Rcpts, fmt.Sprintf("%s%d@%s", smtpLocals[w.Choose(6)], w.Choose(3), smtpDomains[w.Choose(len(smtpDomains))]))
				}
				k.Txns = append(k.Txns, t)
			}
			return k
		}
		if k.Store.Backend == "file" {
			// a disk fault while a message is being stored, and another transaction
			// on the same connection afterwards
			if k.Fault = genFSFault(w, 1); k.Fault.On {
				if k.Fault.Stall > 0 {
					// a disk that stalls for longer than the idle timeout while the message is
					// stored: the timeout is about a silent client, not about a slow server
					k.Fault.Delta, k.Fault.Len, k.Fault.Stall = w.Choose(3), 3, k.Timeout/2+5*time.Second
				}
				add := func(kind, text, rcpt string) {
					ln := c03Line{Kind: kind, Text: text, Rcpt: rcpt}
					if kind == "data" {
						tok++
						ln.Tok = fmt.Sprintf("tok%d", tok)
					}
					k.Lines = append(k.Lines, ln)
				}
				rc := func() string {
					return smtpLocals[w.Choose(6)] + fmt.Sprint(w.Choose(3)) + "@" + smtpDomains[w.Choose(len(smtpDomains))]
				}
				add("ehlo", "EHLO client.sim", "")
				add("mail", "MAIL FROM:<first@origin.test>", "")
				for i, n := 0, 1+w.Choose(3); i < n; i++ {
					r := rc()
					add("rcpt", "RCPT TO:<"+r+">", r)
				}
				add("data", "DATA", "")
				k.Fault.Target = tok - 1
				add("mail", "MAIL FROM:<second@origin.test>", "")
				r := rc()
				add("rcpt", "RCPT TO:<"+r+">", r)
				add("data", "DATA", "")
			}
		}
		return k
	}
	// modes B and S: a valid dialogue of 1-3 transactions
	nt := 1 + w.Choose(3)
	for i := 0; i < nt; i++ {
		tok++
		t := smtpTxn{Token: fmt.Sprintf("tok%d", tok), From: "good@example.org", End: "data", Extra: []int{0, 40, 400}[w.Choose(3)]}
		if i == 0 {
			t.Greet = []string{"HELO", "EHLO"}[w.Choose(2)]
		}
		for j, nr := 0, 1+w.Choose(3); j < nr; j++ {
			t.Rcpts = append(t.Rcpts, fmt.Sprintf("%s%d@%s", smtpLocals[w.Choose(6)], i*10+j, smtpDomains[w.Choose(len(smtpDomains))]))
		}
		k.Txns = append(k.Txns, t)
	}
	if k.Mode == "P" {
		k.Pipe = w.Choose(3)
		// the client writes ahead without reading: with buffers smaller than the
		// dialogue both sides would block on their writes (no real TCP stack has
		// 64-byte buffers in both directions)
		k.Net.BufCap = 65536
	}
	if k.Mode == "B" {
		if tier == "thorough" && w.Choose(12) == 0 {
			// every byte offset of the dialogue: a couple of thousand connections; keep
			// each of them cheap (no byte-wise segmentation) so that the run fits its budget
			k.Cuts = []int{-1}
			if k.Net.SegMode == 2 {
				k.Net.SegMode = 1
			}
		} else {
			for i, n := 0, 12+w.Choose(20); i < n; i++ {
				k.Cuts = append(k.Cuts, w.Choose(1<<16))
			}
		}
	}
	return k
}

func hasGreeting(l []c03Line) bool {
	for _, x := range l {
		if x.Kind == "helo" || x.Kind == "ehlo" {
			return true
		}
	}
	return false
}

// c03Expect tracks which tokens must / may / must not be stored.
type c03Expect struct {
	must map[string][]string // token -> recipients (all must hold exactly one copy)
	may  map[string][]string // token -> recipients (0 or 1 copy each)
	skip map[string]bool     // tokens whose envelope the model could not follow
	data map[string][]byte
}

func newC03Expect() *c03Expect {
	return &c03Expect{must: map[string][]string{}, may: map[string][]string{}, skip: map[string]bool{}, data: map[string][]byte{}}
}

func (e *c03Expect) check(c *Ctx, k *c03Case, dumpNames []string, env *smtpEnv) {
	dump, err := dumpStore(env.store, dumpNames)
	if err != nil {
		c.Failf(tagOf(k.Store)+"/store-read-error", "reading the store back: %v", err)
		return
	}
	count := map[string]int{}
	var boxes []string
	for b := range dump {
		boxes = append(boxes, b)
	}
	sort.Strings(boxes)
	for _, b := range boxes {
		for _, m := range dump[b] {
			key := b + "\x00" + m.Token
			count[key]++
			if e.skip[m.Token] {
				continue
			}
			data, ok := e.data[m.Token]
			if !ok {
				c.Failf("phantom-message", "mailbox %q holds a message with subject %q that was never transmitted", b, m.Subject)
				continue
			}
			if !bytes.HasSuffix(normLF(m.Source), normLF(ensureCRLF(data))) {
				c.Failf("partial-message", "%s/%s (%s): stored source does not end with the complete transmitted data (stored %d bytes, sent %d)", b, m.ID, m.Token, len(m.Source), len(data))
			}
			if m.Size != int64(len(m.Source)) {
				c.Failf("size-mismatch", "%s/%s: Size()=%d, source has %d bytes", b, m.ID, m.Size, len(m.Source))
			}
			allowed := false
			for _, r := range append(append([]string{}, e.must[m.Token]...), e.may[m.Token]...) {
				if strings.ToLower(localOf(r)) == b {
					allowed = true
				}
			}
			if !allowed {
				c.Failf("message-for-unaccepted-recipient", "mailbox %q holds %s, but that transaction was not acknowledged for a recipient naming it (acknowledged: %v, in flight: %v)", b, m.Token, e.must[m.Token], e.may[m.Token])
			}
		}
	}
	var toks []string
	for t := range e.must {
		toks = append(toks, t)
	}
	sort.Strings(toks)
	for _, t := range toks {
		per := map[string]int{}
		for _, r := range e.must[t] {
			per[strings.ToLower(localOf(r))]++
		}
		var bs []string
		for b := range per {
			bs = append(bs, b)
		}
		sort.Strings(bs)
		for _, b := range bs {
			if n := count[b+"\x00"+t]; n != per[b] {
				what := "acknowledged-message-missing"
				if n > per[b] {
					what = "message-duplicated"
				}
				c.Failf(what, "mailbox %q holds %d copies of %s, the 250 after DATA promised %d", b, n, t, per[b])
			}
		}
	}
	var mtoks []string
	for t := range e.may {
		mtoks = append(mtoks, t)
	}
	sort.Strings(mtoks)
	for _, t := range mtoks {
		per := map[string]int{}
		for _, r := range e.may[t] {
			per[strings.ToLower(localOf(r))]++
		}
		for _, b := range sortedKeysI(per) {
			max := per[b]
			if n := count[b+"\x00"+t]; n > max {
				c.Failf("message-duplicated", "mailbox %q holds %d copies of in-flight %s, at most %d expected", b, n, t, max)
			}
		}
	}
}

func localOf(addr string) string {
	if i := strings.Index(addr, "@"); i >= 0 {
		addr = addr[:i]
	}
	if i := strings.Index(addr, "+"); i >= 0 {
		addr = addr[:i]
	}
	return addr
}

// settle lets the server react, then asserts that nothing unsolicited is
// waiting to be read (exactly one reply per line).
func (cl *smtpClient) settle(c *Ctx, after string) {
	t := simrt.Current()
	t.Quiesce()
	if n := cl.conn.Buffered() + cl.br.Buffered(); n > 0 {
		b, _ := cl.br.Peek(cl.br.Buffered())
		c.Failf("surplus-reply", "after the reply to %q the server sent %d more unsolicited bytes: %q", clipStr(after, 60), n, clipStr(string(b), 80))
	}
}

func runC03(c *Ctx, cs Case) {
	k := cs.(*c03Case)
	if k.Store.Backend == "file" {
		ensureFS(c.Sim)
	}
	simnet.Of(c.Sim).Profile = k.Net
	if os.Getenv("VERIF_NET_TRACE") != "" {
		simnet.Of(c.Sim).Profile.Trace = true
	}
	eh := extension.NewHost()
	st, err := openStore(k.Store, eh)
	if err != nil {
		panic(err)
	}
	root := baseRoot()
	root.SMTP.Timeout = k.Timeout
	env := startSMTP(c, root, st, eh)
	exp := newC03Expect()
	var names []string
	for _, l := range smtpLocals {
		for i := 0; i < 40; i++ {
			names = append(names, strings.ToLower(l)+fmt.Sprint(i))
		}
	}
	switch k.Mode {
	case "A":
		c.Go("client", func() { c03History(c, k, exp) })
		if len(k.Txns) > 0 {
			c.Go("client-bg", func() { c03PlayWithCut(c, k, exp, "-bg", -1, false) })
			c.Stat("probe.second_session_alongside", 1)
		}
		c.JoinAll()
	case "B":
		c03Cuts(c, k, exp, env)
	case "S":
		c03Stall(c, k, exp)
	case "P":
		c03Pipelined(c, k, exp)
	}
	// every session must have ended by now or end within the idle timeout
	t0 := time.Now()
	env.stop()
	if d := time.Since(t0); d > k.Timeout+5*time.Second {
		c.Failf("session-outlives-timeout", "a session was still open %v after its client had gone (idle timeout %v)", d, k.Timeout)
	}
	if c.Failed() {
		return
	}
	exp.check(c, k, names, env)
	c.NonTrivial(k.Mode, len(exp.must), len(exp.may), c.Sim.Steps)
}

// c03History plays mode A: arbitrary command lines, checked per reply.
func c03History(c *Ctx, k *c03Case, exp *c03Expect) {
	patience := k.Timeout + 90*time.Second
	if k.Fault.Stall > 0 {
		patience = 3*k.Timeout + 120*time.Second // the client waits for a server whose disk is slow
	}
	cl, err := dialSMTP(c, "client", patience)
	if err != nil {
		c.Failf("dial-refused", "%v", err)
		return
	}
	defer cl.close()
	if g := cl.readReply(); g.Code != 220 || !g.WellFormed {
		c.Failf("bad-greeting", "expected a well-formed 220 greeting, got %s (%s)", g, g.Why)
		return
	}
	greeted, inTxn, tainted := false, false, false
	var accepted []string
	wf := func(line string, r reply) bool {
		if r.Err != nil {
			c.Failf("no-reply", "line %q: no reply (%v)", clipStr(line, 60), r.Err)
			return false
		}
		if !r.WellFormed {
			c.Failf("malformed-reply", "line %q: reply %q is not well-formed: %s", clipStr(line, 60), clipStr(r.Raw, 80), r.Why)
			return false
		}
		return true
	}
	for _, ln := range k.Lines {
		r := cl.cmd(ln.Text)
		if !wf(ln.Text, r) {
			return
		}
		verb := strings.ToUpper(strings.SplitN(strings.TrimSpace(ln.Text), " ", 2)[0])
		if r.Code == 221 && verb != "QUIT" {
			c.Failf("session-dropped", "line %q was answered %s and the session ended", clipStr(ln.Text, 60), r)
			return
		}
		switch ln.Kind {
		case "helo", "ehlo":
			if r.ok2xx() {
				greeted = true
				inTxn, accepted = false, nil
			}
		case "mail", "mailbad":
			if r.ok2xx() {
				if !greeted {
					c.Failf("mail-accepted-before-greeting", "%q was answered %s although no HELO/EHLO had been accepted", ln.Text, r)
					return
				}
				if inTxn {
					c.Failf("mail-accepted-inside-transaction", "%q was answered %s while a transaction was open", ln.Text, r)
					return
				}
				inTxn, accepted, tainted = true, nil, false
			}
		case "rcpt":
			if r.ok2xx() {
				if !inTxn {
					c.Failf("rcpt-accepted-outside-transaction", "%q was answered %s although no transaction is open", ln.Text, r)
					return
				}
				accepted = append(accepted, ln.Rcpt)
			}
		case "rcptbad":
			if r.ok2xx() {
				if !inTxn {
					c.Failf("rcpt-accepted-outside-transaction", "%q was answered %s although no transaction is open", ln.Text, r)
					return
				}
				// a malformed recipient line was accepted: the model cannot name its mailbox
				tainted = true
				accepted = append(accepted, "tainted@tainted")
			}
		case "data":
			if r.Code == 354 {
				if len(accepted) == 0 {
					c.Failf("data-without-recipient", "DATA answered 354 with no recipient accepted since the last MAIL (in transaction: %v)", inTxn)
					return
				}
				data := mkMessage(ln.Tok, "hdrfrom@sender.test", accepted, 30, 7)
				exp.data[ln.Tok] = data
				fired := fsFired(c.Sim)
				disarm := func() int { return 0 }
				if k.Fault.On && ln.Tok == fmt.Sprintf("tok%d", k.Fault.Target+1) {
					disarm = k.Fault.arm(c.Sim)
				}
				fin := cl.sendData(data)
				disarm()
				if !wf("<data>", fin) {
					return
				}
				if fin.Code != 250 && fsFired(c.Sim) > fired {
					// the disk failed while this message was being stored and the server
					// said so: each of ITS recipients may or may not have a copy
					if tainted {
						exp.skip[ln.Tok] = true
					} else {
						exp.may[ln.Tok] = append([]string{}, accepted...)
					}
					c.Stat("probe.transaction_refused_after_disk_fault", 1)
				}
				if fin.Code == 250 {
					exp.must[ln.Tok] = append([]string{}, accepted...)
					if tainted {
						exp.skip[ln.Tok] = true
						delete(exp.must, ln.Tok)
					}
				}
				inTxn, accepted, tainted = false, nil, false
			} else if r.ok2xx() {
				c.Failf("data-bad-reply", "DATA answered %s (neither 354 nor a refusal)", r)
				return
			}
		case "rset":
			if r.ok2xx() {
				inTxn, accepted = false, nil
			}
		case "authlogin":
			if r.Code == 334 {
				r2 := cl.cmd("dXNlcg==")
				if !wf("<username>", r2) {
					return
				}
				if r2.Code == 334 {
					r3 := cl.cmd("cGFzcw==")
					if !wf("<password>", r3) {
						return
					}
				}
			}
		}
		cl.settle(c, ln.Text)
		if c.Failed() {
			return
		}
	}
	q := cl.cmd("QUIT")
	if !wf("QUIT", q) {
		return
	}
	if q.Code != 221 {
		c.Failf("quit-not-221", "QUIT answered %s", q)
	}
	// after 221 the server closes: EOF, nothing else
	_ = cl.conn.SetReadDeadline(time.Now().Add(k.Timeout + 30*time.Second))
	buf := make([]byte, 64)
	if n, err := cl.br.Read(buf); n > 0 || err == nil {
		c.Failf("surplus-reply", "data after the reply to QUIT: %q", buf[:n])
	}
}

// dialogueBytes plays a valid dialogue reply-driven and cuts the connection
// after exactly `cut` bytes have been written (cut<0: never).  It reports how
// many bytes the whole dialogue has.
func c03PlayWithCut(c *Ctx, k *c03Case, exp *c03Expect, suffix string, cut int, rst bool) (total int) {
	cl, err := dialSMTP(c, "client"+suffix, k.Timeout+90*time.Second)
	if err != nil {
		c.Failf("dial-refused", "%v", err)
		return 0
	}
	sent := 0
	closed := false
	finish := func() {
		if closed {
			return
		}
		closed = true
		if rst {
			cl.conn.Abort()
			c.Stat("fault.conn_reset_at_offset", 1)
		} else {
			cl.close()
			c.Stat("fault.conn_fin_at_offset", 1)
		}
	}
	defer finish()
	// send writes b but never more than the cut allows; false = cut reached
	send := func(b []byte) bool {
		if cut >= 0 && sent+len(b) > cut {
			n := cut - sent
			if n > 0 {
				_ = cl.write(b[:n])
			}
			sent = cut
			finish()
			return false
		}
		sent += len(b)
		return cl.write(b) == nil
	}
	if cut == 0 {
		finish()
		return 0
	}
	if g := cl.readReply(); g.Code != 220 {
		c.Failf("bad-greeting", "expected 220, got %s", g)
		return 0
	}
	line := func(s string) (reply, bool) {
		if !send([]byte(s + "\r\n")) {
			return reply{}, false
		}
		return cl.readReply(), true
	}
	for _, t := range k.Txns {
		tok := t.Token + suffix
		if t.Greet != "" {
			if _, ok := line(t.Greet + " client.sim"); !ok {
				return sent
			}
		}
		if _, ok := line("MAIL FROM:<" + t.From + ">"); !ok {
			return sent
		}
		var accepted []string
		for _, rc := range t.Rcpts {
			r, ok := line("RCPT TO:<" + rc + ">")
			if !ok {
				return sent
			}
			if r.ok2xx() {
				accepted = append(accepted, rc)
			}
		}
		r, ok := line("DATA")
		if !ok {
			return sent
		}
		if r.Code != 354 {
			c.Failf("valid-dialogue-refused", "DATA of a valid dialogue answered %s", r)
			return sent
		}
		data := mkMessage(tok, "hdrfrom@sender.test", t.Rcpts, t.Extra, 3)
		exp.data[tok] = data
		stuffed := dotStuff(data)
		if !send(stuffed) {
			// cut inside the data: nothing of this message may be stored
			return sent
		}
		if cut >= 0 && sent == cut {
			// data completely transmitted, reply not read: 0 or all
			exp.may[tok] = accepted
			finish()
			return sent
		}
		fin := cl.readReply()
		if fin.Code == 250 {
			exp.must[tok] = accepted
		} else if fin.Err == nil {
			c.Failf("valid-dialogue-refused", "message data of a valid dialogue answered %s", fin)
			return sent
		}
	}
	if _, ok := line("QUIT"); !ok {
		return sent
	}
	return sent
}

func c03Cuts(c *Ctx, k *c03Case, exp *c03Expect, env *smtpEnv) {
	// one uncut pass measures the dialogue
	var total int
	t := c.Go("measure", func() { total = c03PlayWithCut(c, k, exp, "-full", -1, false) })
	c.Main.Join(t)
	if c.Failed() || total == 0 {
		return
	}
	var cuts []int
	if len(k.Cuts) == 1 && k.Cuts[0] == -1 {
		for i := 0; i <= total; i++ {
			cuts = append(cuts, i)
		}
	} else {
		for _, x := range k.Cuts {
			cuts = append(cuts, x%(total+1))
		}
		cuts = append(cuts, 0, total)
	}
	c.Stat("probe.cut_offsets", int64(len(cuts)))
	for i, cut := range cuts {
		i, cut := i, cut
		t := c.Go(fmt.Sprintf("cut%d", cut), func() {
			c03PlayWithCut(c, k, exp, fmt.Sprintf("-c%d-%d", i, cut), cut, k.RST && i%2 == 0)
		})
		c.Main.Join(t)
		if c.Failed() {
			return
		}
	}
}

// c03Pipelined sends a valid dialogue ahead of the replies (a client that does
// not wait, or whose lines the network delivers together): the server sees
// several command lines - and message data - in one read.  Every line must
// still get exactly one reply, in order, the dialogue must be accepted as when
// it is played step by step, and what was acknowledged must be stored.
func c03Pipelined(c *Ctx, k *c03Case, exp *c03Expect) {
	t := c.Go("pipeliner", func() {
		cl, err := dialSMTP(c, "pipeliner", k.Timeout+90*time.Second)
		if err != nil {
			c.Failf("dial-refused", "%v", err)
			return
		}
		defer cl.close()
		if g := cl.readReply(); g.Code != 220 {
			c.Failf("bad-greeting", "expected 220, got %s", g)
			return
		}
		type expect struct {
			what string
			code int
			tok  string
			rc   []string
		}
		var out bytes.Buffer
		var want []expect
		flush := func() bool {
			if out.Len() > 0 {
				cl.logf("-> %d bytes in one write (%d replies outstanding)", out.Len(), len(want))
				if err := cl.write(out.Bytes()); err != nil {
					c.Failf("pipelined/write-failed", "%v", err)
					return false
				}
				out.Reset()
			}
			for _, e := range want {
				r := cl.readReply()
				if r.Err != nil {
					c.Failf("pipelined/no-reply", "no reply to %s sent ahead (%v); %d replies were still outstanding", e.what, r.Err, len(want))
					return false
				}
				if !r.WellFormed {
					c.Failf("malformed-reply", "reply to %s: %q is not well-formed: %s", e.what, clipStr(r.Raw, 80), r.Why)
					return false
				}
				if r.Code != e.code {
					c.Failf("pipelined/valid-dialogue-refused", "%s sent ahead of the replies was answered %s, expected %d as when it is sent step by step", e.what, r, e.code)
					return false
				}
				if e.tok != "" {
					exp.must[e.tok] = e.rc
				}
			}
			want = want[:0]
			return true
		}
		line := func(s string, code int) {
			out.WriteString(s + "\r\n")
			want = append(want, expect{what: fmt.Sprintf("%q", s), code: code})
		}
		for _, t := range k.Txns {
			tok := t.Token + "-p"
			if t.Greet != "" {
				line(t.Greet+" client.sim", 250)
			}
			line("MAIL FROM:<"+t.From+">", 250)
			for _, rc := range t.Rcpts {
				line("RCPT TO:<"+rc+">", 250)
			}
			line("DATA", 354)
			if k.Pipe == 2 && !flush() {
				return
			}
			data := mkMessage(tok, "hdrfrom@sender.test", t.Rcpts, t.Extra, 3)
			exp.data[tok] = data
			// in flight until acknowledged
			exp.may[tok] = t.Rcpts
			out.Write(dotStuff(data))
			want = append(want, expect{what: "the data of " + tok, code: 250, tok: tok, rc: t.Rcpts})
			if k.Pipe == 1 && !flush() {
				return
			}
		}
		line("QUIT", 221)
		if !flush() {
			return
		}
		for tok := range exp.must {
			delete(exp.may, tok)
		}
		c.Stat("probe.pipelined_dialogues", 1)
	})
	c.Main.Join(t)
}

func c03Stall(c *Ctx, k *c03Case, exp *c03Expect) {
	t := c.Go("staller", func() {
		cl, err := dialSMTP(c, "staller", 3*k.Timeout+90*time.Second)
		if err != nil {
			c.Failf("dial-refused", "%v", err)
			return
		}
		defer cl.close()
		cl.readReply()
		tx := k.Txns[0]
		cl.cmd("EHLO client.sim")
		cl.cmd("MAIL FROM:<" + tx.From + ">")
		for _, rc := range tx.Rcpts {
			cl.cmd("RCPT TO:<" + rc + ">")
		}
		stage := len(k.Txns) % 3
		data := mkMessage(tx.Token, "hdrfrom@sender.test", tx.Rcpts, tx.Extra, 3)
		exp.data[tx.Token] = data
		if stage >= 1 {
			if r := cl.cmd("DATA"); r.Code == 354 && stage == 2 {
				st := dotStuff(data)
				_ = cl.write(st[:len(st)/2])
			}
		}
		c.Stat("fault.client_stall_past_timeout", 1)
		t0 := time.Now()
		simrt.Sleep(k.Timeout + 2*time.Second)
		// the server must have given up: the connection ends
		_ = cl.conn.SetReadDeadline(time.Now().Add(20 * time.Second))
		buf := make([]byte, 256)
		for {
			_, err := cl.br.Read(buf)
			if err != nil {
				if ne, ok := err.(interface{ Timeout() bool }); ok && ne.Timeout() {
					c.Failf("idle-session-not-closed", "client silent for %v (idle timeout %v) but the server keeps the connection open", time.Since(t0), k.Timeout)
				}
				return
			}
		}
	})
	c.Main.Join(t)
}

func init() {
	register(&Prop{
		ID:    "C03",
		Level: "fault_enumeration",
		Gen:   genC03,
		Run:   runC03,
		Config: func(cs Case) simrt.Config {
			if k := cs.(*c03Case); len(k.Cuts) == 1 && k.Cuts[0] == -1 {
				return simrt.Config{NoJumps: true, MaxSteps: 12000000, MaxSimTime: 48 * time.Hour}
			}
			return simrt.Config{NoJumps: true, MaxSteps: 3000000, MaxSimTime: 12 * time.Hour}
		},
		BudgetIsViolation: true,
		QuickRuns:         3500,
		ThoroughRuns:      120000,
		Rule: "the real SMTP server on the simulated network (mem store, file store in a quarter of the runs; seeded segmentation, delay, buffers). " +
			"Mode A (60%): 4-33 command lines from a grammar (HELO EHLO MAIL RCPT DATA+body RSET NOOP VRFY QUIT AUTH PLAIN/LOGIN(+2 lines)/bad " +
			"STARTTLS, unimplemented and unknown verbs, malformed arguments, mixed case, over-long lines up to 100 KB, binary garbage, empty and " +
			"short lines) checked per line against a reference state machine that only constrains what the statement fixes: exactly one " +
			"well-formed reply (nothing unsolicited once the server is quiescent), 2xx to MAIL only after a greeting and outside a transaction, " +
			"2xx to RCPT only inside one, 354 only with an accepted recipient; afterwards the store must hold exactly the recipients accepted " +
			"since the most recent MAIL of every 250-acknowledged transaction. Mode B (20%): a valid 1-3 transaction dialogue is cut (FIN or " +
			"RST) after exactly k bytes for 14-33 seeded offsets plus 0 and the end (thorough: every offset of a third of the dialogues): " +
			"acknowledged messages present once, the fully transmitted unacknowledged one 0..1, nothing partial or phantom, session ends. " +
			"Mode S (20%): client stalls past the idle timeout in READY/MAIL/DATA state. non-trivial = every run; distinct by (mode, #acknowledged, steps)",
		Real:        []string{"pkg/server/smtp", "pkg/message", "pkg/policy", "pkg/storage/mem", "pkg/storage/file", "net/textproto"},
		Stub:        []string{"TCP (simnet) with cut at byte k (FIN/RST), stall", "scheduler", "clock", "disk"},
		Assumptions: []string{"TLS is never enabled (STARTTLS must be refused)", "default accept/store policy, local naming"},
	})
}
