package harness

import (
	"bytes"
	"crypto/sha1"
	"encoding/hex"
	"errors"
	"fmt"
	"io"
	"net/mail"
	"strconv"
	"strings"
	"syscall"
	"time"

	"github.com/inbucket/inbucket/v3/pkg/config"
	"github.com/inbucket/inbucket/v3/pkg/extension"
	"github.com/inbucket/inbucket/v3/pkg/extension/event"
	"github.com/inbucket/inbucket/v3/pkg/message"
	"github.com/inbucket/inbucket/v3/pkg/storage"
	"github.com/inbucket/inbucket/v3/pkg/storage/file"
	"github.com/inbucket/inbucket/v3/pkg/storage/mem"
	"github.com/inbucket/inbucket/v3/vsim/models"
	"github.com/inbucket/inbucket/v3/vsim/simfs"
	"github.com/inbucket/inbucket/v3/vsim/simrt"
)

// StoreCfg selects and configures a back-end.
type StoreCfg struct {
	Backend string // "mem" | "file"
	Cap     int
	MaxKB   int // mem only; 0 = no size limit
}

func (sc StoreCfg) String() string {
	return fmt.Sprintf("%s(cap=%d,maxkb=%d)", sc.Backend, sc.Cap, sc.MaxKB)
}

const filePath = "/data"

// openStore creates the store inside the simulation.  For the file back-end
// the simulated FS must already be installed.
func openStore(sc StoreCfg, eh *extension.Host) (storage.Store, error) {
	cfg := config.Storage{MailboxMsgCap: sc.Cap, Params: map[string]string{}}
	switch sc.Backend {
	case "mem":
		if sc.MaxKB > 0 {
			cfg.Params["maxkb"] = strconv.Itoa(sc.MaxKB)
		}
		return mem.New(cfg, eh)
	case "file":
		cfg.Params["path"] = filePath
		// Every file.New in a harness stands for a process start: package-level
		// state (the message id counter) begins again, as it does in a new process.
		if file.VerifProcessRestart() {
			simrt.Count("probe.id_counter_restarts", 1)
		}
		return file.New(cfg, eh)
	}
	return nil, fmt.Errorf("unknown backend %q", sc.Backend)
}

// ensureFS installs a fresh simulated FS if none is installed.
func ensureFS(s *simrt.Sim) *simfs.FS {
	if f := simfs.Installed(s); f != nil {
		return f
	}
	f := simfs.New()
	simfs.Install(s, f)
	return f
}

func toMail(a models.Addr) *mail.Address { return &mail.Address{Name: a.Name, Address: a.Address} }

func toMails(l []models.Addr) []*mail.Address {
	out := make([]*mail.Address, len(l))
	for i, a := range l {
		out[i] = toMail(a)
	}
	return out
}

// delivery builds the storage.Message handed to AddMessage.
func delivery(m *models.Msg) *message.Delivery {
	return &message.Delivery{
		Meta:   event.MessageMetadata{Mailbox: m.Mailbox, From: toMail(m.From), To: toMails(m.To), Date: m.Date, Subject: m.Subject},
		Reader: bytes.NewReader(m.Body),
	}
}

// cmpMsg compares a stored message with the model's; returns "" when equal.
func cmpMsg(got storage.Message, want *models.Msg, checkBody bool) string {
	if got == nil {
		return "nil message"
	}
	if got.Mailbox() != want.Mailbox {
		return fmt.Sprintf("mailbox %q want %q", got.Mailbox(), want.Mailbox)
	}
	if got.ID() != want.ID {
		return fmt.Sprintf("id %q want %q", got.ID(), want.ID)
	}
	if f := got.From(); f == nil || f.Name != want.From.Name || f.Address != want.From.Address {
		return fmt.Sprintf("from %v want %v", f, want.From)
	}
	if len(got.To()) != len(want.To) {
		return fmt.Sprintf("to has %d entries want %d", len(got.To()), len(want.To))
	}
	for i, a := range got.To() {
		if a == nil || a.Name != want.To[i].Name || a.Address != want.To[i].Address {
			return fmt.Sprintf("to[%d] %v want %v", i, a, want.To[i])
		}
	}
	if !got.Date().Equal(want.Date) {
		return fmt.Sprintf("date %v want %v", got.Date(), want.Date)
	}
	if got.Subject() != want.Subject {
		return fmt.Sprintf("subject %q want %q", got.Subject(), want.Subject)
	}
	if got.Seen() != want.Seen {
		return fmt.Sprintf("seen %v want %v", got.Seen(), want.Seen)
	}
	if got.Size() != want.Size() {
		return fmt.Sprintf("size %d want %d", got.Size(), want.Size())
	}
	if checkBody {
		r, err := got.Source()
		if err != nil {
			return "Source(): " + err.Error()
		}
		b, err := io.ReadAll(r)
		_ = r.Close()
		if err != nil {
			return "read source: " + err.Error()
		}
		if !bytes.Equal(b, want.Body) {
			return fmt.Sprintf("content differs: got %d bytes %q want %d bytes %q", len(b), short(b), len(want.Body), short(want.Body))
		}
	}
	return ""
}

func short(b []byte) string {
	if len(b) > 40 {
		return string(b[:20]) + "..." + string(b[len(b)-20:])
	}
	return string(b)
}

// cmpList compares a listing with the model's; returns "" when equal.
func cmpList(got []storage.Message, want []*models.Msg, checkBody bool) string {
	if len(got) != len(want) {
		return fmt.Sprintf("listing has %d messages %v, want %d %v", len(got), idsOf(got), len(want), idsOfM(want))
	}
	for i := range got {
		if d := cmpMsg(got[i], want[i], checkBody); d != "" {
			return fmt.Sprintf("listing[%d]: %s (got ids %v want %v)", i, d, idsOf(got), idsOfM(want))
		}
	}
	return ""
}

func idsOf(l []storage.Message) []string {
	out := make([]string, len(l))
	for i, m := range l {
		if m == nil {
			out[i] = "<nil>"
		} else {
			out[i] = m.ID()
		}
	}
	return out
}

func idsOfM(l []*models.Msg) []string {
	out := make([]string, len(l))
	for i, m := range l {
		out[i] = m.ID
	}
	return out
}

func isNotExist(err error) bool { return errors.Is(err, storage.ErrNotExist) }

func errStr(err error) string {
	if err == nil {
		return "nil"
	}
	return err.Error()
}

// ---- name pools ----

func mailboxHash(name string) string {
	h := sha1.Sum([]byte(name))
	return hex.EncodeToString(h[:])
}

// collidingNames are mailbox names whose sha1 shares the first three hex
// digits: the same lock bucket and first-level directory in the file store.
var collidingNames = func() [][]string {
	byBucket := map[string][]string{}
	var groups [][]string
	for i := 0; i < 40000 && len(groups) < 6; i++ {
		n := "u" + strconv.Itoa(i)
		b := mailboxHash(n)[:3]
		byBucket[b] = append(byBucket[b], n)
		if len(byBucket[b]) == 4 {
			groups = append(groups, byBucket[b])
		}
	}
	return groups
}()

// deepCollidingNames share the first SIX hex digits of their sha1: the same
// second-level directory in the file store (found by brute force at start-up).
var deepCollidingNames = func() [][]string {
	byPrefix := map[string]string{}
	var groups [][]string
	for i := 0; i < 60000 && len(groups) < 6; i++ {
		n := "w" + strconv.Itoa(i)
		p := mailboxHash(n)[:6]
		if other, ok := byPrefix[p]; ok {
			groups = append(groups, []string{other, n})
		} else {
			byPrefix[p] = n
		}
	}
	return groups
}()

var plainNames = []string{"alice", "bob", "carol", "dave", "eve", "frank"}

var oddNames = []string{
	"user@example.com", "a.b-c_d", "x!#$%&'*=?^`{|}~", "quoted/slash", "UPPER", "@example.com",
	strings.Repeat("long", 40), "[192.168.0.1]", "sp ace", "uni-ü", "percent%41", "plus+tag", "q?a=b&c;d#e",
}

// pickNames returns n distinct mailbox names from the pools: plain, colliding, odd.
func pickNames(w *simrt.Choices, n int, allowOdd bool) []string {
	seen := map[string]bool{}
	var out []string
	var grp, deep []string
	if len(collidingNames) > 0 {
		grp = collidingNames[w.Choose(len(collidingNames))]
	}
	if len(deepCollidingNames) > 0 && w.Choose(3) == 0 {
		deep = deepCollidingNames[w.Choose(len(deepCollidingNames))]
	}
	for len(out) < n {
		var name string
		k := w.Choose(3)
		switch {
		case k == 1 && len(deep) > 0 && len(out) < 2:
			name = deep[len(out)]
		case k == 1 && len(grp) > 0:
			name = grp[w.Choose(len(grp))]
		case k == 2 && allowOdd:
			name = oddNames[w.Choose(len(oddNames))]
		default:
			name = plainNames[w.Choose(len(plainNames))]
		}
		if seen[name] {
			// same rule when generating and replaying: disambiguate, never retry
			name = name + "-" + strconv.Itoa(len(out))
		}
		seen[name] = true
		out = append(out, name)
	}
	return out
}

var baseDate = time.Date(1999, 12, 31, 23, 0, 0, 0, time.UTC)

// genBody returns a body of exactly n bytes (n >= 0) derived from ONE choice,
// so that choice lists stay short and shrinkable.  The content mixes letters,
// CR, LF, dots, NUL and 8-bit bytes.
func genBody(w *simrt.Choices, token string, n int) []byte {
	seed := uint64(w.Choose(1 << 16))
	return bodyFromSeed(seed, token, n)
}

func bodyFromSeed(seed uint64, token string, n int) []byte {
	var b bytes.Buffer
	b.WriteString("Subject: " + token + "\r\n\r\n")
	alphabet := "abcdefghijklmnopqrstuvwxyz \r\n.,\x00\xff"
	x := seed*0x9E3779B97F4A7C15 + 1
	for b.Len() < n {
		x ^= x << 13
		x ^= x >> 7
		x ^= x << 17
		b.WriteByte(alphabet[x%uint64(len(alphabet))])
		if b.Len()%61 == 0 {
			b.WriteString("\r\n")
		}
	}
	out := b.Bytes()
	if len(out) > n && n >= 0 {
		out = out[:n]
	}
	return out
}

// ---- disk error injection ----

// fsFault describes one injected disk fault: starting Delta mutating
// file-system steps after it is armed, Len consecutive steps fail without
// taking effect - with ENOSPC (only steps that need space: mkdir, create,
// write) or with EIO (any step).
type fsFault struct {
	On     bool
	Delta  int
	Len    int
	NoSpc  bool
	Target int // which operation of the case it is armed in (meaning is the harness's)
	// Stall > 0: no error; each of the Len steps takes this long instead (a stalled disk)
	Stall time.Duration
	// ReadOpens > 0: instead, that many opens of existing files for reading fail with EMFILE
	ReadOpens int
}

func (f fsFault) String() string {
	if !f.On {
		return "no disk fault"
	}
	if f.ReadOpens > 0 {
		return fmt.Sprintf("out of file descriptors: the next %d open-for-reading calls fail with EMFILE, from operation %d on", f.ReadOpens, f.Target)
	}
	if f.Stall > 0 {
		return fmt.Sprintf("disk stall: %d step(s) take %v each, %d steps into operation %d", f.Len, f.Stall, f.Delta, f.Target)
	}
	e := "EIO"
	if f.NoSpc {
		e = "ENOSPC"
	}
	return fmt.Sprintf("disk fault %s for %d step(s), %d steps into operation %d", e, f.Len, f.Delta, f.Target)
}

func genFSFault(w *simrt.Choices, nTargets int) fsFault {
	if nTargets <= 0 || w.Choose(2) != 0 {
		return fsFault{}
	}
	f := fsFault{On: true, Delta: w.Choose(14), Len: []int{1, 1, 1, 2, 4, 30}[w.Choose(6)], NoSpc: w.Choose(2) == 0, Target: w.Choose(nTargets)}
	if w.Choose(6) == 0 {
		f.ReadOpens = 1 + w.Choose(3)
		return f
	}
	if w.Choose(4) == 0 {
		f.Stall = []time.Duration{200 * time.Millisecond, 2 * time.Second, 7 * time.Second, 12 * time.Second}[w.Choose(4)]
		if f.Len > 4 {
			// a stall is a delay, not an outage: keep the whole of it (here at most 48 s - longer
			// than the shortest idle timeout in use, which is about a silent CLIENT) well below the
			// patience of the harness's own clients (>= 120 s), which would otherwise give up first
			f.Len = 4
		}
	}
	return f
}

// arm installs the fault on the simulated disk of this run; the returned
// function removes it again and reports how many steps it made fail.
func (f fsFault) arm(s *simrt.Sim) (disarm func() int) {
	fsys := simfs.Installed(s)
	if !f.On || fsys == nil {
		return func() int { return 0 }
	}
	before := fsys.Fired
	if f.ReadOpens > 0 {
		fsys.FailNextReadOpens, fsys.ReadErr = f.ReadOpens, syscall.EMFILE
		return func() int {
			fsys.FailNextReadOpens = 0
			return fsys.Fired - before
		}
	}
	if f.Stall > 0 {
		fsys.SlowAt, fsys.SlowLen, fsys.SlowBy = fsys.Steps+1+f.Delta, f.Len, f.Stall
		return func() int {
			fsys.SlowAt, fsys.SlowLen, fsys.SlowBy = 0, 0, 0
			return 0
		}
	}
	fsys.FailAt, fsys.FailLen = fsys.Steps+1+f.Delta, f.Len
	if f.NoSpc {
		fsys.FailErr = syscall.ENOSPC
		fsys.FailKinds = func(kind string) bool {
			return kind == "mkdir" || kind == "create" || kind == "truncate" || kind == "write"
		}
	} else {
		fsys.FailErr = syscall.EIO
		fsys.FailKinds = nil
	}
	return func() int {
		fsys.FailAt, fsys.FailLen, fsys.FailKinds = 0, 0, nil
		return fsys.Fired - before
	}
}

// fsFired reports how many steps of this run's disk have failed by injection so far.
func fsFired(s *simrt.Sim) int {
	if fsys := simfs.Installed(s); fsys != nil {
		return fsys.Fired
	}
	return 0
}
