package harness

import (
	"context"
	"time"

	"github.com/inbucket/inbucket/v3/pkg/config"
	"github.com/inbucket/inbucket/v3/pkg/storage"
	"github.com/inbucket/inbucket/v3/pkg/storage/file"
	"github.com/inbucket/inbucket/v3/vsim/models"
	"github.com/inbucket/inbucket/v3/vsim/simrt"
)

// C10: the file store is durable across clean restarts.

// reopen drops the store object and opens a new one on the same simulated
// disk after at least one simulated second (a restart takes time).
func (r *storeRig) reopen(gap time.Duration) {
	r.store = nil
	r.issuedBeforeRestart = map[string]map[string]bool{}
	for mb, l := range r.ids {
		r.issuedBeforeRestart[mb] = map[string]bool{}
		for _, id := range l {
			r.issuedBeforeRestart[mb][id] = true
		}
	}
	simrt.Sleep(gap)
	st, err := openStore(r.cfg, r.eh)
	if err != nil {
		r.c.Failf(r.tag+"/reopen->error", "file.New on the existing path failed: %v", err)
		return
	}
	r.store = st
}

// applyUnderFault performs one mutating operation while a disk fault is armed.  If the
// operation reports success it took effect, fault or not.  If it reports failure after the
// fault fired, the mailbox must read back as it was before - or, for mark-seen, remove and
// purge, as it would be after (the index may already have been replaced when a later step
// failed); anything else, or a mailbox that cannot be read any more, is a violation.
func (r *storeRig) applyUnderFault(i int, o SOp, f fsFault) {
	c, tag := r.c, r.tag
	firedBefore := fsFired(c.Sim)
	before := r.model.Clone()
	after := r.model.Clone()
	disarm := f.arm(c.Sim)
	var err error
	switch o.Kind {
	case "add":
		m := *o.Msg
		var id string
		if id, err = r.store.AddMessage(delivery(&m)); err == nil {
			m.ID = id
			r.ids[o.Mailbox] = append(r.ids[o.Mailbox], id)
			r.model.Add(&m)
		}
	case "seen":
		id, live := r.idFor(o)
		if err = r.store.MarkSeen(o.Mailbox, id); live {
			after.MarkSeen(o.Mailbox, id)
			if err == nil {
				r.model.MarkSeen(o.Mailbox, id)
			}
		}
	case "remove":
		id, live := r.idFor(o)
		if err = r.store.RemoveMessage(o.Mailbox, id); live {
			after.Remove(o.Mailbox, id)
			if err == nil {
				r.model.Remove(o.Mailbox, id)
			}
		}
	case "purge":
		after.Purge(o.Mailbox)
		if err = r.store.PurgeMessages(o.Mailbox); err == nil {
			r.model.Purge(o.Mailbox)
		}
	}
	disarm()
	fired := fsFired(c.Sim) > firedBefore
	c.Logf("%s op %d %s under %s -> %s (fault fired: %v)", tag, i, o, f, errStr(err), fired)
	if err != nil && !isNotExist(err) {
		if !fired {
			c.Failf(tag+"/"+o.Kind+"->error", "op %d %s: %v", i, o, err)
			return
		}
		c.Stat("probe.operation_failed_after_disk_fault", 1)
		got, lerr := r.store.GetMessages(o.Mailbox)
		if lerr != nil {
			c.Failf(tag+"/disk-fault:mailbox-unreadable-after-failed-"+o.Kind, "op %d %s failed with %v after the injected disk fault; listing the mailbox now fails too: %v", i, o, err, lerr)
			return
		}
		dB := cmpList(got, before.List(o.Mailbox), true)
		if dB == "" {
			return
		}
		if o.Kind != "add" {
			if dA := cmpList(got, after.List(o.Mailbox), true); dA == "" {
				r.model = after
				return
			}
		}
		c.Failf(tag+"/disk-fault:neither-before-nor-after("+o.Kind+")", "op %d %s failed with %v after the injected disk fault; the mailbox is neither as before (%s) nor as after", i, o, err, dB)
		return
	}
	// reported success (or 'does not exist'): everything must read back as the model says
	r.checkAll([]string{o.Mailbox})
}

// retention runs one real retention scan and applies the same rule to the model.
func (r *storeRig) retention(i int, period time.Duration) {
	rs := storage.NewRetentionScanner(config.Storage{RetentionPeriod: period, RetentionSleep: 0}, r.store)
	cutoff := time.Now().Add(-period)
	if err := rs.DoScan(context.Background()); err != nil {
		r.c.Failf(r.tag+"/DoScan->error", "op %d retention(%v): %v", i, period, err)
		return
	}
	for name, l := range r.model.Boxes {
		for _, m := range append([]*models.Msg{}, l...) {
			if m.Date.Before(cutoff) {
				r.model.Remove(name, m.ID)
			}
		}
	}
}

var c10Kinds = []string{"add", "add", "add", "add", "get", "latest", "list", "seen", "seen", "remove", "purge", "visit", "reopen", "reopen", "retention", "addfail"}

func init() {
	register(&Prop{
		ID:    "C10",
		Level: "exploration",
		Gen: func(w *simrt.Choices, tier string, avoid map[string]bool) Case {
			cfg := StoreCfg{Backend: "file", Cap: []int{0, 0, 2, 3}[w.Choose(4)]}
			h := &storeHistory{Cfgs: []StoreCfg{cfg}}
			h.Names = pickNames(w, 1+w.Choose(4), true)
			n := 8 + w.Choose(50)
			h.Ops = genSOps(w, h.Names, n, 6000, c10Kinds, avoid)
			if w.Choose(30) == 0 {
				h.SkipIDs = 9980 + w.Choose(19) // the id counter is about to start over
			}
			var mut []int
			for i, o := range h.Ops {
				switch o.Kind {
				case "add", "seen", "remove", "purge":
					mut = append(mut, i)
				}
			}
			if h.Fault = genFSFault(w, len(mut)); h.Fault.On {
				h.Fault.Target = mut[h.Fault.Target]
			}
			for i := range h.Ops {
				switch h.Ops[i].Kind {
				case "reopen":
					// gap in ms on top of the base; -1000 = the restart takes no simulated time at all
					// (ids must stay unique even then: they must not depend on per-Store state)
					h.Ops[i].Ref = []int{1, 978, 1955, 2932, -1000, -1000}[w.Choose(6)]
					// the administrator may have changed the mailbox cap before starting the server again
					h.Ops[i].NewCap = []int{0, 0, 0, 0, 2, 3, 5, -1}[w.Choose(8)]
				case "retention":
					h.Ops[i].Ref = []int{1, 60, 600, 3600, 7200, 30000, 90000}[w.Choose(7)] // period in seconds
				}
			}
			return h
		},
		Config: func(cs Case) simrt.Config { return simrt.Config{NoJumps: true} },
		Run: func(c *Ctx, cs Case) {
			h := cs.(*storeHistory)
			r := newStoreRig(c, h.Cfgs[0])
			if h.SkipIDs > 0 {
				file.VerifSkipIDs(h.SkipIDs)
				c.Stat("probe.histories_across_the_id_counter_wrap", 1)
			}
			reopens := 0
			for i, o := range h.Ops {
				if h.Fault.On && h.Fault.Target == i {
					r.applyUnderFault(i, o, h.Fault)
					if c.Failed() {
						return
					}
					continue
				}
				switch o.Kind {
				case "reopen":
					switch {
					case o.NewCap > 0:
						r.cfg.Cap, r.model.Cap = o.NewCap, o.NewCap
					case o.NewCap < 0:
						r.cfg.Cap, r.model.Cap = 0, 0
					}
					r.reopen(time.Second + time.Duration(o.Ref)*time.Millisecond)
					reopens++
					c.Stat("fault.clean_restart", 1)
					if !c.Failed() {
						// everything must be there right away, before any other operation
						r.checkAll(h.Names)
					}
				case "retention":
					r.retention(i, time.Duration(o.Ref)*time.Second)
				default:
					r.apply(i, o)
				}
				if c.Failed() {
					return
				}
				c.Distinct("model_states", r.model.Hash())
			}
			r.reopen(time.Second)
			if !c.Failed() {
				r.checkAll(h.Names)
			}
			if reopens > 0 && len(r.model.NonEmpty()) > 0 {
				c.NonTrivial(r.model.Hash(), len(h.Ops), reopens)
			}
		},
		BudgetIsViolation: true,
		QuickRuns:         5000,
		ThoroughRuns:      100000,
		Rule: "seeded histories of 8-57 operations on the real file store over the simulated disk, with 'reopen' (drop the Store, advance the " +
			"clock >= 1 s, file.New on the same path) and 'retention scan' as generated operations; the reference model is untouched by " +
			"reopen and every observation before and after must match it (order, ids, metadata, seen flags, sizes, content); every run ends " +
			"with one more reopen and a full sweep; non-trivial = at least one reopen with mail present, distinct by final model state",
		Real: []string{"pkg/storage/file", "pkg/storage RetentionScanner.DoScan"},
		Stub: []string{"disk (simfs): clean restart = same tree, new Store object", "clock (synctest)"},
		Assumptions: []string{
			"a restart takes at least one simulated second",
			"the process-wide id counter of the file store is not reset by a simulated restart (DESIGN §9)",
		},
	})
}
