package harness

import (
	"context"
	"time"

	"github.com/inbucket/inbucket/v3/pkg/config"
	"github.com/inbucket/inbucket/v3/pkg/storage"
	"github.com/inbucket/inbucket/v3/pkg/storage/file"
	"github.com/inbucket/inbucket/v3/vsim/models"
	"github.com/inbucket/inbucket/v3/vsim/simrt"
)

// C10: the file store is durable across clean restarts.

// reopen drops the store object and opens a new one on the same simulated
// disk after at least one simulated second (a restart takes time).
func (r *storeRig) reopen(gap time.Duration) {
	r.store = nil
	r.issuedBeforeRestart = map[string]map[string]bool{}
	for mb, l := range r.ids {
		r.issuedBeforeRestart[mb] = map[string]bool{}
		for _, id := range l {
			r.issuedBeforeRestart[mb][id] = true
		}
	}
	simrt.Sleep(gap)
	st, err := openStore(r.cfg, r.eh)
	if err != nil {
		r.c.Failf(r.tag+"/reopen->error", "file.New on the existing path failed: %v", err)
		return
	}
	r.store = st
}

// retention runs one real retention scan and applies the same rule to the model.
func (r *storeRig) retention(i int, period time.Duration) {
	rs := storage.NewRetentionScanner(config.Storage{RetentionPeriod: period, RetentionSleep: 0}, r.store)
	cutoff := time.Now().Add(-period)
	if err := rs.DoScan(context.Background()); err != nil {
		r.c.Failf(r.tag+"/DoScan->error", "op %d retention(%v): %v", i, period, err)
		return
	}
	for name, l := range r.model.Boxes {
		for _, m := range append([]*models.Msg{}, l...) {
			if m.Date.Before(cutoff) {
				r.model.Remove(name, m.ID)
			}
		}
	}
}

var c10Kinds = []string{"add", "add", "add", "add", "get", "latest", "list", "seen", "seen", "remove", "purge", "visit", "reopen", "reopen", "retention", "addfail"}

func init() {
	register(&Prop{
		ID:    "C10",
		Level: "exploration",
		Gen: func(w *simrt.Choices, tier string, avoid map[string]bool) Case {
			cfg := StoreCfg{Backend: "file", Cap: []int{0, 0, 2, 3}[w.Choose(4)]}
			h := &storeHistory{Cfgs: []StoreCfg{cfg}}
			h.Names = pickNames(w, 1+w.Choose(4), true)
			n := 8 + w.Choose(50)
			h.Ops = genSOps(w, h.Names, n, 6000, c10Kinds, avoid)
			if w.Choose(30) == 0 {
				h.SkipIDs = 9980 + w.Choose(19) // the id counter is about to start over
			}
			for i := range h.Ops {
				switch h.Ops[i].Kind {
				case "reopen":
					// gap in ms on top of the base; -1000 = the restart takes no simulated time at all
					// (ids must stay unique even then: they must not depend on per-Store state)
					h.Ops[i].Ref = []int{1, 978, 1955, 2932, -1000, -1000}[w.Choose(6)]
					// the administrator may have changed the mailbox cap before starting the server again
					h.Ops[i].NewCap = []int{0, 0, 0, 0, 2, 3, 5, -1}[w.Choose(8)]
				case "retention":
					h.Ops[i].Ref = []int{1, 60, 600, 3600, 7200, 30000, 90000}[w.Choose(7)] // period in seconds
				}
			}
			return h
		},
		Config: func(cs Case) simrt.Config { return simrt.Config{NoJumps: true} },
		Run: func(c *Ctx, cs Case) {
			h := cs.(*storeHistory)
			r := newStoreRig(c, h.Cfgs[0])
			if h.SkipIDs > 0 {
				file.VerifSkipIDs(h.SkipIDs)
				c.Stat("probe.histories_across_the_id_counter_wrap", 1)
			}
			reopens := 0
			for i, o := range h.Ops {
				switch o.Kind {
				case "reopen":
					switch {
					case o.NewCap > 0:
						r.cfg.Cap, r.model.Cap = o.NewCap, o.NewCap
					case o.NewCap < 0:
						r.cfg.Cap, r.model.Cap = 0, 0
					}
					r.reopen(time.Second + time.Duration(o.Ref)*time.Millisecond)
					reopens++
					c.Stat("fault.clean_restart", 1)
					if !c.Failed() {
						// everything must be there right away, before any other operation
						r.checkAll(h.Names)
					}
				case "retention":
					r.retention(i, time.Duration(o.Ref)*time.Second)
				default:
					r.apply(i, o)
				}
				if c.Failed() {
					return
				}
				c.Distinct("model_states", r.model.Hash())
			}
			r.reopen(time.Second)
			if !c.Failed() {
				r.checkAll(h.Names)
			}
			if reopens > 0 && len(r.model.NonEmpty()) > 0 {
				c.NonTrivial(r.model.Hash(), len(h.Ops), reopens)
			}
		},
		BudgetIsViolation: true,
		QuickRuns:         5000,
		ThoroughRuns:      100000,
		Rule: "seeded histories of 8-57 operations on the real file store over the simulated disk, with 'reopen' (drop the Store, advance the " +
			"clock >= 1 s, file.New on the same path) and 'retention scan' as generated operations; the reference model is untouched by " +
			"reopen and every observation before and after must match it (order, ids, metadata, seen flags, sizes, content); every run ends " +
			"with one more reopen and a full sweep; non-trivial = at least one reopen with mail present, distinct by final model state",
		Real: []string{"pkg/storage/file", "pkg/storage RetentionScanner.DoScan"},
		Stub: []string{"disk (simfs): clean restart = same tree, new Store object", "clock (synctest)"},
		Assumptions: []string{
			"a restart takes at least one simulated second",
			"the process-wide id counter of the file store is not reset by a simulated restart (DESIGN §9)",
		},
	})
}
