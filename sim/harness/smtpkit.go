package harness

import (
	"bufio"
	"bytes"
	"context"
	"fmt"
	"io"
	"strconv"
	"strings"
	"time"

	"github.com/inbucket/inbucket/v3/pkg/config"
	"github.com/inbucket/inbucket/v3/pkg/extension"
	"github.com/inbucket/inbucket/v3/pkg/message"
	"github.com/inbucket/inbucket/v3/pkg/policy"
	"github.com/inbucket/inbucket/v3/pkg/server/smtp"
	"github.com/inbucket/inbucket/v3/pkg/storage"
	"github.com/inbucket/inbucket/v3/vsim/models"
	"github.com/inbucket/inbucket/v3/vsim/simnet"
	"github.com/inbucket/inbucket/v3/vsim/simrt"
)

const (
	smtpAddr = "127.0.0.1:2500"
	pop3Addr = "127.0.0.1:1100"
)

// netProfile draws the per-run network parameters.
func netProfile(w *simrt.Choices) simnet.Profile {
	p := simnet.Profile{
		SegMode:  w.Choose(3),
		MaxDelay: []time.Duration{0, 0, 3 * time.Millisecond, 2 * time.Second}[w.Choose(4)],
		BufCap:   []int{0, 0, 64, 1024, 65536}[w.Choose(5)],
	}
	// Keep the transmission time of any single line or reply well below the
	// idle timeouts: with second-scale delays a small buffer would turn one
	// long line into minutes of simulated time, and Inbucket's deadlines are
	// per line, not per byte (a slower-than-timeout transfer is outside every
	// property here; see DESIGN "observations").
	if p.MaxDelay > 100*time.Millisecond && p.BufCap != 0 && p.BufCap < 65536 {
		p.BufCap = 0
	}
	return p
}

func profileString(p simnet.Profile) string {
	return fmt.Sprintf("net(seg=%d,delay<=%v,buf=%d)", p.SegMode, p.MaxDelay, p.BufCap)
}

// smtpEnv is a running SMTP server inside the simulation.
type smtpEnv struct {
	c      *Ctx
	root   *config.Root
	store  storage.Store
	eh     *extension.Host
	ap     *policy.Addressing
	mgr    *message.StoreManager
	srv    *smtp.Server
	cancel context.CancelFunc
	ctx    context.Context
	start  *simrt.Task
}

func baseRoot() *config.Root {
	root := &config.Root{MailboxNaming: config.LocalNaming}
	root.SMTP.Addr = smtpAddr
	root.SMTP.Domain = "inbucket.sim"
	root.SMTP.MaxRecipients = 200
	root.SMTP.MaxMessageBytes = 10240000
	root.SMTP.DefaultAccept = true
	root.SMTP.DefaultStore = true
	root.SMTP.Timeout = 300 * time.Second
	root.POP3.Addr = pop3Addr
	root.POP3.Domain = "inbucket.sim"
	root.POP3.Timeout = 600 * time.Second
	root.Web.MonitorHistory = 30
	return root
}

func setNaming(root *config.Root, mode string) {
	if err := root.MailboxNaming.Decode(mode); err != nil {
		panic(err)
	}
}

func startSMTP(c *Ctx, root *config.Root, st storage.Store, eh *extension.Host) *smtpEnv {
	e := &smtpEnv{c: c, root: root, store: st, eh: eh}
	e.ap = &policy.Addressing{Config: root}
	e.mgr = &message.StoreManager{AddrPolicy: e.ap, Store: st, ExtHost: eh}
	e.srv = smtp.NewServer(root.SMTP, e.mgr, e.ap, eh)
	e.ctx, e.cancel = context.WithCancel(context.Background())
	ready := false
	e.start = simrt.Go("smtp.Start", func() { e.srv.Start(e.ctx, func() { ready = true }) })
	c.Main.Quiesce()
	if !ready {
		panic("harness: SMTP server did not become ready")
	}
	return e
}

// stop cancels the server and waits for sessions to drain.
func (e *smtpEnv) stop() {
	e.cancel()
	e.srv.Drain()
}

// reply is one SMTP reply as the client saw it.
type reply struct {
	Code       int
	Lines      []string // text of each line without code and separator
	Raw        string
	Err        error
	WellFormed bool
	Why        string // why it is not well-formed
}

func (r reply) String() string {
	if r.Err != nil {
		return fmt.Sprintf("<%v after %q>", r.Err, r.Raw)
	}
	if len(r.Lines) > 1 {
		return fmt.Sprintf("%d (%d lines) %s", r.Code, len(r.Lines), r.Lines[len(r.Lines)-1])
	}
	return strings.TrimRight(r.Raw, "\r\n")
}

func (r reply) ok2xx() bool { return r.Err == nil && r.Code >= 200 && r.Code < 300 }

// smtpClient is a reply-driven scripted client on a simulated connection.
type smtpClient struct {
	c       *Ctx
	name    string
	conn    *simnet.Conn
	br      *bufio.Reader
	timeout time.Duration
	sent    int64 // bytes written so far
	trace   []string
}

func dialSMTPAt(c *Ctx, name, addr string, timeout time.Duration) (*smtpClient, error) {
	conn, err := simnet.Dial(addr)
	if err != nil {
		return nil, err
	}
	return &smtpClient{c: c, name: name, conn: conn, br: bufio.NewReaderSize(conn, 512), timeout: timeout}, nil
}

func dialSMTP(c *Ctx, name string, timeout time.Duration) (*smtpClient, error) {
	return dialSMTPAt(c, name, smtpAddr, timeout)
}

func (cl *smtpClient) logf(format string, a ...interface{}) {
	s := fmt.Sprintf(format, a...)
	cl.trace = append(cl.trace, s)
	cl.c.Logf("%s %s", cl.name, s)
}

// readReply reads one (possibly multi-line) reply.
func (cl *smtpClient) readReply() reply {
	var r reply
	r.WellFormed = true
	for {
		_ = cl.conn.SetReadDeadline(time.Now().Add(cl.timeout))
		line, err := cl.br.ReadString('\n')
		r.Raw += line
		if err != nil {
			r.Err = err
			r.WellFormed = false
			cl.logf("<- %s", r)
			return r
		}
		if !strings.HasSuffix(line, "\r\n") {
			r.WellFormed, r.Why = false, "line not terminated by CRLF"
		}
		t := strings.TrimRight(line, "\r\n")
		if len(t) < 3 || !isDigits(t[:3]) || (len(t) > 3 && t[3] != ' ' && t[3] != '-') {
			r.WellFormed, r.Why = false, fmt.Sprintf("line %q does not start with a three-digit code and separator", t)
			cl.logf("<- %s", r)
			return r
		}
		code, _ := strconv.Atoi(t[:3])
		if r.Code != 0 && code != r.Code {
			r.WellFormed, r.Why = false, "codes differ within a multi-line reply"
		}
		r.Code = code
		text := ""
		if len(t) > 4 {
			text = t[4:]
		}
		r.Lines = append(r.Lines, text)
		if code < 200 || code > 599 {
			r.WellFormed, r.Why = false, "code out of range"
		}
		if len(t) == 3 || t[3] == ' ' {
			cl.logf("<- %s", r)
			return r
		}
		if len(r.Lines) > 64 {
			r.WellFormed, r.Why = false, "multi-line reply never ends"
			return r
		}
	}
}

func isDigits(s string) bool {
	for _, ch := range s {
		if ch < '0' || ch > '9' {
			return false
		}
	}
	return true
}

// write sends raw bytes.
func (cl *smtpClient) write(b []byte) error {
	_ = cl.conn.SetWriteDeadline(time.Now().Add(cl.timeout))
	n, err := cl.conn.Write(b)
	cl.sent += int64(n)
	return err
}

// cmd sends one command line and reads one reply.
func (cl *smtpClient) cmd(line string) reply {
	cl.logf("-> %q", clipStr(line, 120))
	if err := cl.write([]byte(line + "\r\n")); err != nil {
		return reply{Err: err}
	}
	return cl.readReply()
}

func clipStr(s string, n int) string {
	if len(s) > n {
		return s[:n] + fmt.Sprintf("...(%d bytes)", len(s))
	}
	return s
}

// dotStuff prepares message data for transmission: a '.' is doubled at the
// start and after every LF; the data is terminated by CRLF (added if missing)
// and ".CRLF".
func dotStuff(data []byte) []byte {
	var b bytes.Buffer
	atLineStart := true
	for _, ch := range data {
		if atLineStart && ch == '.' {
			b.WriteByte('.')
		}
		b.WriteByte(ch)
		atLineStart = ch == '\n'
	}
	if !bytes.HasSuffix(data, []byte("\r\n")) {
		b.WriteString("\r\n")
	}
	b.WriteString(".\r\n")
	return b.Bytes()
}

// sendData transmits message data after a 354 and reads the final reply.
func (cl *smtpClient) sendData(data []byte) reply {
	cl.logf("-> <%d bytes of data>", len(data))
	if err := cl.write(dotStuff(data)); err != nil {
		return reply{Err: err}
	}
	return cl.readReply()
}

func (cl *smtpClient) close() {
	_ = cl.conn.Close()
}

// mkMessage builds RFC 5322 text with a unique token in Subject and body.
func mkMessage(token, from string, to []string, extra int, seed uint64) []byte {
	var b bytes.Buffer
	fmt.Fprintf(&b, "From: Sender %s <%s>\r\n", token, from)
	if len(to) > 0 {
		fmt.Fprintf(&b, "To: %s\r\n", strings.Join(wrapAngles(to), ", "))
	}
	fmt.Fprintf(&b, "Subject: %s\r\nMessage-Id: <%s@sim>\r\n\r\n", token, token)
	fmt.Fprintf(&b, "body of %s\r\n", token)
	x := seed*2654435761 + 12345
	for i := 0; i < extra; i++ {
		x = x*6364136223846793005 + 1442695040888963407
		// line ends only as CRLF pairs: what a bare CR or LF in message data means is
		// C02's subject, and "\r" directly before a line end makes comparisons that
		// ignore the CRLF/LF difference ambiguous
		ch := "abcdefghij klmnop\n\n."[(x>>33)%20]
		if ch == '\n' {
			if i+1 >= extra {
				ch = 'q'
			} else {
				b.WriteByte('\r')
				i++
			}
		}
		b.WriteByte(ch)
	}
	return b.Bytes()
}

func wrapAngles(l []string) []string {
	out := make([]string, len(l))
	for i, a := range l {
		out[i] = "<" + a + ">"
	}
	return out
}

// storedMsg is what the oracle reads back from the store.
type storedMsg struct {
	Mailbox, ID, Token, Subject, From string
	To                                []string
	Size                              int64
	Source                            []byte
}

// dumpStore reads every mailbox (VisitMailboxes plus the given names).
func dumpStore(st storage.Store, extraNames []string) (map[string][]storedMsg, error) {
	out := map[string][]storedMsg{}
	seen := map[string]bool{}
	rd := func(ms []storage.Message) error {
		for _, m := range ms {
			key := m.Mailbox() + "/" + m.ID()
			if seen[key] {
				continue
			}
			seen[key] = true
			sm := storedMsg{Mailbox: m.Mailbox(), ID: m.ID(), Subject: m.Subject(), Size: m.Size()}
			if m.From() != nil {
				sm.From = m.From().Address
			}
			for _, t := range m.To() {
				if t != nil {
					sm.To = append(sm.To, t.Address)
				}
			}
			r, err := m.Source()
			if err != nil {
				return fmt.Errorf("%s: Source(): %v", key, err)
			}
			b, err := io.ReadAll(r)
			_ = r.Close()
			if err != nil {
				return fmt.Errorf("%s: read: %v", key, err)
			}
			sm.Source = b
			sm.Token = sm.Subject
			out[sm.Mailbox] = append(out[sm.Mailbox], sm)
		}
		return nil
	}
	var verr error
	if err := st.VisitMailboxes(func(ms []storage.Message) bool {
		if err := rd(ms); err != nil {
			verr = err
			return false
		}
		return true
	}); err != nil {
		return nil, err
	}
	if verr != nil {
		return nil, verr
	}
	for _, n := range extraNames {
		ms, err := st.GetMessages(n)
		if err != nil {
			return nil, err
		}
		if err := rd(ms); err != nil {
			return nil, err
		}
	}
	return out, nil
}

func toModelPolicy(root *config.Root) *models.Policy {
	s := root.SMTP
	return &models.Policy{DefaultAccept: s.DefaultAccept, AcceptDomains: s.AcceptDomains, RejectDomains: s.RejectDomains,
		DefaultStore: s.DefaultStore, StoreDomains: s.StoreDomains, DiscardDomains: s.DiscardDomains,
		RejectOrigin: s.RejectOriginDomains, MaxRecipients: s.MaxRecipients}
}
