package harness

import (
	"context"
	"fmt"
	"io"
	"time"

	"github.com/inbucket/inbucket/v3/pkg/config"
	"github.com/inbucket/inbucket/v3/pkg/extension"
	"github.com/inbucket/inbucket/v3/pkg/storage"
	"github.com/inbucket/inbucket/v3/vsim/simrt"
)

// C09R is the race-mode companion of C09 ("... nor has a data race"): the same
// concurrent store workloads, run in a binary built with -race.  The
// simulator's own hand-off is hidden from ThreadSanitizer (simrt/race_on.go),
// the happens-before edges of Inbucket's own synchronisation are published
// (real channel operations and go statements natively, simsync through
// RaceAcquire/RaceReleaseMerge), so a report means two accesses that nothing in
// Inbucket orders - on the schedule chosen by the seed.  Everything in this
// file is //go:norace: the harness's own bookkeeping is not under test.

//go:norace
func raceDo(st storage.Store, issued *idTable, o SOp) {
	pick := func() string {
		l := issued.get(o.Mailbox)
		if o.Ref < 0 || len(l) == 0 {
			return "1"
		}
		return l[o.Ref%len(l)]
	}
	switch o.Kind {
	case "add":
		m := *o.Msg
		if id, err := st.AddMessage(delivery(&m)); err == nil {
			issued.add(o.Mailbox, id)
		}
	case "get", "latest":
		id := "latest"
		if o.Kind == "get" {
			id = pick()
		}
		if m, err := st.GetMessage(o.Mailbox, id); err == nil && m != nil {
			// a reader keeps the returned message for a while (REST handler, POP3 session)
			simrt.Current().Yield("reader holds a message")
			raceTouch(m)
		}
	case "list":
		ms, _ := st.GetMessages(o.Mailbox)
		simrt.Current().Yield("reader holds a listing")
		for _, m := range ms {
			raceTouch(m)
		}
	case "seen":
		_ = st.MarkSeen(o.Mailbox, pick())
	case "remove":
		_ = st.RemoveMessage(o.Mailbox, pick())
	case "purge":
		_ = st.PurgeMessages(o.Mailbox)
	}
}

// raceTouch reads everything a reader of a returned message reads.
//
//go:norace
func raceTouch(m storage.Message) {
	_ = m.ID()
	_ = m.Mailbox()
	_ = m.Subject()
	_ = m.Seen()
	_ = m.Size()
	_ = m.Date()
	_ = m.From()
	_ = m.To()
	if r, err := m.Source(); err == nil {
		_, _ = io.Copy(io.Discard, r)
		_ = r.Close()
	}
}

//go:norace
func runC09R(c *Ctx, cs Case) {
	k := cs.(*c09Case)
	if k.Cfg.Backend == "file" {
		ensureFS(c.Sim)
	}
	st, err := openStore(k.Cfg, extension.NewHost())
	if err != nil {
		panic(err)
	}
	issued := &idTable{}
	for _, o := range k.Prefill {
		raceDo(st, issued, o)
	}
	var tasks []*simrt.Task
	for ci, ops := range k.Clients {
		ops := ops
		tasks = append(tasks, simrt.Go(fmt.Sprintf("client%d", ci), func() { raceClient(st, issued, ops) }))
	}
	if k.Retention {
		tasks = append(tasks, simrt.Go("retention", func() { raceRetention(st, k.RetPeriod) }))
	}
	for _, t := range tasks {
		c.Main.Join(t)
	}
	for _, n := range k.Names {
		raceDo(st, issued, SOp{Kind: "list", Mailbox: n})
	}
	c.Stat("probe.race_mode_runs", 1)
	c.NonTrivial("race", len(k.Clients), k.Cfg.String(), c.Sim.Steps)
}

//go:norace
func raceClient(st storage.Store, issued *idTable, ops []SOp) {
	for _, o := range ops {
		raceDo(st, issued, o)
	}
}

//go:norace
func raceRetention(st storage.Store, period time.Duration) {
	rs := storage.NewRetentionScanner(config.Storage{RetentionPeriod: period, RetentionSleep: 0}, st)
	_ = rs.DoScan(context.Background())
}

func init() {
	register(&Prop{
		ID:    "C09R",
		Level: "exploration",
		Gen: func(w *simrt.Choices, tier string, avoid map[string]bool) Case {
			k := genC09(w, tier, avoid).(*c09Case)
			// the simulated disk keeps its tree in Go maps, whose runtime functions report
			// to the race detector on the caller's behalf; race mode runs the memory store
			k.Cfg.Backend = "mem"
			return k
		},
		Run:               runC09R,
		Config:            func(cs Case) simrt.Config { return simrt.Config{NoJumps: true, MaxSteps: 100000} },
		BudgetIsViolation: true,
		QuickRuns:         4000,
		ThoroughRuns:      60000,
		RaceMode:          true,
		Rule:              "race-mode companion of C09: the same generated concurrent workloads run in a -race binary; a ThreadSanitizer report attributed to the run is a violation",
	})
}

// idTable is the harness's shared list of issued ids (no Go map: see simrt).
type idTable struct {
	boxes []string
	ids   [][]string
}

//go:norace
func (t *idTable) get(box string) []string {
	for i, b := range t.boxes {
		if b == box {
			return t.ids[i]
		}
	}
	return nil
}

//go:norace
func (t *idTable) add(box, id string) {
	for i, b := range t.boxes {
		if b == box {
			t.ids[i] = append(t.ids[i], id)
			return
		}
	}
	t.boxes = append(t.boxes, box)
	t.ids = append(t.ids, []string{id})
}
