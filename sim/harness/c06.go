package harness

import (
	"fmt"
	"strconv"
	"time"

	"github.com/inbucket/inbucket/v3/pkg/extension"
	"github.com/inbucket/inbucket/v3/pkg/extension/event"
	"github.com/inbucket/inbucket/v3/vsim/simnet"
	"github.com/inbucket/inbucket/v3/vsim/simrt"
)

// C06: no message larger than the configured maximum is ever accepted or
// stored; messages within the limit are; the session stays usable.

type c06Msg struct {
	Size     int    // bytes of message data as the client has it
	SizeArg  string // "" | "truthful" | "under" | "over"
	Declared int
	Token    string
	Body8    bool // MAIL carries BODY=8BITMIME
}

type c06Case struct {
	Limit int
	Store StoreCfg
	Net   simnet.Profile
	Msgs  []c06Msg
	// Cut: after the messages above the client starts one more message, transmits
	// CutAfter bytes of its data (more than the limit allows, or less) and then
	// never sends the end-of-data line: it closes (fin), resets (rst) or goes
	// silent until the server's timeout (stall).  Nothing of it may be stored.
	Cut      string
	CutAfter int
	// Hook: "allow" | "defer" | "": an extension listener answering that for every MAIL
	// (an allowed sender is allowed against the origin-domain policy, not against the size limit)
	Hook string
	// Pipe: the client sends the next command line (NOOP) in the same write as the
	// end of the message data instead of waiting for the reply first
	Pipe bool
	// Helo: the session is opened with HELO instead of EHLO (the limit applies all the same)
	Helo bool
	// Linger: before the final small message the client keeps the session alive with a NOOP
	// every third of the idle timeout for more than two idle timeouts
	Linger bool
}

func (k *c06Case) Describe() []string {
	l := []string{fmt.Sprintf("MaxMessageBytes=%d store=%s %s mail-hook=%q next-command-sent-with-the-data=%v helo=%v linger=%v", k.Limit, k.Store, profileString(k.Net), k.Hook, k.Pipe, k.Helo, k.Linger)}
	for i, m := range k.Msgs {
		l = append(l, fmt.Sprintf("msg%d size=%d (limit%+d) SIZE=%s(%d) token=%s", i, m.Size, m.Size-k.Limit, m.SizeArg, m.Declared, m.Token))
	}
	if k.Cut != "" {
		l = append(l, fmt.Sprintf("then one more message: %d bytes of data (limit%+d) transmitted, no end-of-data line, connection ends by %s", k.CutAfter, k.CutAfter-k.Limit, k.Cut))
	}
	return l
}

// c06Slack covers the ambiguity in what "size" counts: line terminators
// (CRLF vs LF), the terminating CRLF, dot-stuffing, trace headers.
const c06Slack = 512

func genC06(w *simrt.Choices, tier string, avoid map[string]bool) Case {
	k := &c06Case{Store: StoreCfg{Backend: []string{"mem", "file"}[w.Choose(2)]}, Net: netProfile(w)}
	k.Net.MaxDelay = []time.Duration{0, 3 * time.Millisecond}[w.Choose(2)]
	k.Limit = []int{1024, 2000, 4096, 10000, 65536}[w.Choose(5)]
	if tier == "thorough" && w.Choose(20) == 0 {
		// (4 MiB and more was tried: single runs of several minutes, worker batches beyond their watchdog)
		k.Limit = []int{262144, 1 << 20}[w.Choose(2)]
	}
	if k.Limit > 8192 && k.Net.SegMode == 2 {
		k.Net.SegMode = 1
	}
	if k.Limit > 65536 && k.Net.BufCap > 0 && k.Net.BufCap < 65536 {
		k.Net.BufCap = 65536
	}
	n := 1 + w.Choose(4)
	if k.Limit > 65536 && n > 2 {
		n = 2
	}
	for i := 0; i < n; i++ {
		m := c06Msg{Token: fmt.Sprintf("tok%d", i+1)}
		switch w.Choose(7) {
		case 0:
			m.Size = 200
		case 1:
			m.Size = k.Limit / 2
		case 2:
			m.Size = k.Limit - c06Slack - w.Choose(100)
		case 3:
			m.Size = k.Limit + c06Slack + w.Choose(100)
		case 4:
			m.Size = k.Limit * 2
		case 5:
			m.Size = k.Limit + w.Choose(2*c06Slack) - c06Slack // inside the unconstrained band
		default:
			m.Size = k.Limit*3 + 17
		}
		if m.Size < 150 {
			m.Size = 150
		}
		m.SizeArg = []string{"", "", "truthful", "under", "over"}[w.Choose(5)]
		switch m.SizeArg {
		case "truthful":
			m.Declared = m.Size
		case "under":
			m.Declared = 1 + w.Choose(k.Limit/2)
		case "over":
			m.Declared = k.Limit + 1 + w.Choose(k.Limit)
		}
		k.Msgs = append(k.Msgs, m)
	}
	// always finish with a small message: the session must remain usable
	k.Msgs = append(k.Msgs, c06Msg{Size: 180, Token: fmt.Sprintf("tok%d", n+1)})
	k.Hook = []string{"", "", "allow", "defer"}[w.Choose(4)]
	k.Pipe = w.Choose(3) == 0
	k.Helo = w.Choose(4) == 0
	k.Linger = w.Choose(5) == 0
	for i := range k.Msgs {
		// other MAIL parameters may accompany or replace SIZE
		k.Msgs[i].Body8 = w.Choose(3) == 0
	}
	if w.Choose(3) == 0 {
		k.Cut = []string{"fin", "rst", "stall"}[w.Choose(3)]
		k.CutAfter = []int{k.Limit / 2, k.Limit + 1, k.Limit + c06Slack + 50, 2 * k.Limit, 3*k.Limit + 5}[w.Choose(5)]
	}
	return k
}

func runC06(c *Ctx, cs Case) {
	k := cs.(*c06Case)
	if k.Store.Backend == "file" {
		ensureFS(c.Sim)
	}
	simnet.Of(c.Sim).Profile = k.Net
	eh := extension.NewHost()
	st, err := openStore(k.Store, eh)
	if err != nil {
		panic(err)
	}
	switch k.Hook {
	case "allow":
		eh.Events.BeforeMailFromAccepted.AddListener("c06", func(event.SMTPSession) *event.SMTPResponse {
			return &event.SMTPResponse{Action: event.ActionAllow}
		})
	case "defer":
		eh.Events.BeforeMailFromAccepted.AddListener("c06", func(event.SMTPSession) *event.SMTPResponse {
			return &event.SMTPResponse{Action: event.ActionDefer}
		})
	}
	root := baseRoot()
	root.SMTP.MaxMessageBytes = k.Limit
	root.SMTP.Timeout = 600 * time.Second
	env := startSMTP(c, root, st, eh)
	mustStore := map[string]bool{}
	mustNot := map[string]bool{}
	sizes := map[string]int{}
	boxOf := map[string]string{"tokcut": "boxcut"}
	over, under := 0, 0
	t := c.Go("client", func() {
		cl, err := dialSMTP(c, "client", 900*time.Second)
		if err != nil {
			c.Failf("dial-refused", "%v", err)
			return
		}
		defer cl.close()
		cl.readReply()
		if k.Helo {
			cl.cmd("HELO client.sim")
		} else {
			cl.cmd("EHLO client.sim")
		}
		for i, m := range k.Msgs {
			if k.Linger && i == len(k.Msgs)-1 {
				// the session stays in use for a long time: it must not be cut off
				for j := 0; j < 8; j++ {
					simrt.Sleep(root.SMTP.Timeout / 3)
					if r := cl.cmd("NOOP"); r.Err != nil || r.Code != 250 {
						c.Failf("session-unusable", "NOOP %v after the previous command (idle timeout %v) was answered %s (%v)", root.SMTP.Timeout/3, root.SMTP.Timeout, r, r.Err)
						return
					}
				}
				c.Stat("probe.session_kept_alive_past_two_timeouts", 1)
			}
			arg := ""
			if m.Body8 {
				arg = " BODY=8BITMIME"
			}
			if m.SizeArg != "" {
				arg += " SIZE=" + strconv.Itoa(m.Declared)
			}
			sizes[m.Token] = m.Size
			boxOf[m.Token] = "box" + strconv.Itoa(i)
			rm := cl.cmd("MAIL FROM:<sender@origin.test>" + arg)
			if rm.Err != nil {
				c.Failf("session-unusable", "message %d: MAIL got no reply: %v", i, rm.Err)
				return
			}
			if m.SizeArg != "" && m.Declared > k.Limit {
				if rm.ok2xx() {
					c.Failf("declared-size-over-limit-accepted", "MAIL ... SIZE=%d accepted, the limit is %d", m.Declared, k.Limit)
					return
				}
				mustNot[m.Token] = true
				c.Stat("probe.mail_refused_by_declared_size", 1)
				continue
			}
			if !rm.ok2xx() {
				c.Failf("mail-refused-within-limit", "MAIL%s answered %s although the declared size is within the limit %d", arg, rm, k.Limit)
				return
			}
			if r := cl.cmd("RCPT TO:<box" + strconv.Itoa(i) + "@example.com>"); !r.ok2xx() {
				c.Failf("session-unusable", "message %d: RCPT answered %s", i, r)
				return
			}
			rd := cl.cmd("DATA")
			if rd.Code != 354 {
				c.Failf("session-unusable", "message %d: DATA answered %s", i, rd)
				return
			}
			hdr := mkMessage(m.Token, "hdr@sender.test", []string{"box@example.com"}, 0, 1)
			extra := m.Size - len(hdr)
			if extra < 0 {
				extra = 0
			}
			data := mkMessage(m.Token, "hdr@sender.test", []string{"box@example.com"}, extra, uint64(i))
			var fin reply
			if k.Pipe {
				cl.logf("-> <%d bytes of data> and \"NOOP\" in one write", len(data))
				if err := cl.write(append(dotStuff(data), "NOOP\r\n"...)); err != nil {
					c.Failf("session-unusable", "message %d: write failed: %v", i, err)
					return
				}
				fin = cl.readReply()
			} else {
				fin = cl.sendData(data)
			}
			if fin.Err != nil {
				c.Failf("session-unusable", "message %d (%d bytes, limit %d): no final reply after the data: %v", i, len(data), k.Limit, fin.Err)
				return
			}
			if k.Pipe {
				if rn := cl.readReply(); rn.Err != nil || rn.Code != 250 {
					c.Failf("session-unusable", "message %d (%d bytes, limit %d, answered %s): the NOOP sent right behind the data was answered %s (%v)", i, len(data), k.Limit, fin, rn, rn.Err)
					return
				}
				c.Stat("probe.command_sent_with_the_data", 1)
			}
			// "size" may count line ends as CRLF (as transmitted, RFC 1870) or as LF (as
			// stored): a message is oversized for certain only by the smaller measure,
			// within the limit for certain only by the larger
			lfSize := len(normLF(data))
			switch {
			case lfSize >= k.Limit+c06Slack:
				over++
				mustNot[m.Token] = true
				if fin.ok2xx() {
					c.Failf("oversized-message-accepted", "a message of %d bytes was acknowledged with %s, MaxMessageBytes is %d (SIZE parameter: %q)", len(data), fin, k.Limit, arg)
					return
				}
			case len(data) <= k.Limit-c06Slack:
				under++
				if !fin.ok2xx() {
					c.Failf("message-within-limit-refused", "a message of %d bytes was answered %s, MaxMessageBytes is %d", len(data), fin, k.Limit)
					return
				}
				mustStore[m.Token] = true
			default:
				c.Stat("probe.sizes_in_unconstrained_band", 1)
			}
		}
		if k.Cut == "" {
			cl.cmd("QUIT")
			return
		}
		// one more message that is never finished
		const cutTok = "tokcut"
		mustNot[cutTok] = true
		sizes[cutTok] = k.CutAfter
		if r := cl.cmd("MAIL FROM:<sender@origin.test>"); !r.ok2xx() {
			c.Failf("session-unusable", "MAIL of the last message answered %s", r)
			return
		}
		if r := cl.cmd("RCPT TO:<boxcut@example.com>"); !r.ok2xx() {
			c.Failf("session-unusable", "RCPT of the last message answered %s", r)
			return
		}
		if r := cl.cmd("DATA"); r.Code != 354 {
			c.Failf("session-unusable", "DATA of the last message answered %s", r)
			return
		}
		hdr := mkMessage(cutTok, "hdr@sender.test", []string{"boxcut@example.com"}, 0, 1)
		data := dotStuff(mkMessage(cutTok, "hdr@sender.test", []string{"boxcut@example.com"}, k.CutAfter+200-len(hdr), 99))
		// dotStuff appended the end-of-data line; transmit only CutAfter bytes, ending inside a line
		n := k.CutAfter
		if n > len(data)-8 {
			n = len(data) - 8
		}
		_ = cl.write(data[:n])
		simrt.Current().Quiesce()
		switch k.Cut {
		case "fin":
			_ = cl.conn.Close()
			c.Stat("fault.conn_fin_mid_data", 1)
		case "rst":
			cl.conn.Abort()
			c.Stat("fault.conn_rst_mid_data", 1)
		case "stall":
			simrt.Sleep(root.SMTP.Timeout + root.SMTP.Timeout/4)
			c.Stat("fault.client_silent_mid_data_past_timeout", 1)
		}
		if k.CutAfter > k.Limit {
			c.Stat("probe.oversized_data_never_finished", 1)
		}
	})
	c.Main.Join(t)
	env.stop()
	if c.Failed() {
		return
	}
	var names []string
	for i := range k.Msgs {
		names = append(names, "box"+strconv.Itoa(i))
	}
	names = append(names, "boxcut")
	dump, err := dumpStore(st, names)
	if err != nil {
		c.Failf("store-read-error", "%v", err)
		return
	}
	found := map[string]bool{}
	for _, b := range names {
		for _, m := range dump[b] {
			found[m.Token] = true
			if own, ok := boxOf[m.Token]; ok && own != b {
				c.Failf("message-in-another-transactions-mailbox", "mailbox %q holds %s, which was addressed to %q only (an earlier transaction of the session had %q as its recipient)", b, m.Token, own, b)
			}
			if mustNot[m.Token] {
				c.Failf("oversized-message-stored", "mailbox %q holds %s (%d bytes stored, %d transmitted); MaxMessageBytes is %d", b, m.Token, len(m.Source), sizes[m.Token], k.Limit)
			}
			if int(m.Size) > k.Limit+2*c06Slack {
				c.Failf("oversized-message-stored", "mailbox %q holds a message of %d bytes; MaxMessageBytes is %d", b, m.Size, k.Limit)
			}
		}
	}
	for i, m := range k.Msgs {
		if mustStore[m.Token] && !found[m.Token] {
			c.Failf("accepted-message-not-stored", "message %d (%s, %d bytes) was acknowledged but is not in its mailbox", i, m.Token, m.Size)
		}
	}
	c.Stat("probe.oversized_messages_sent", int64(over))
	c.Stat("probe.within_limit_messages_sent", int64(under))
	if over > 0 {
		c.NonTrivial(k.Limit, over, under, len(k.Msgs), c.Sim.Steps)
	}
}

func init() {
	register(&Prop{
		ID:    "C06",
		Level: "exploration",
		Gen:   genC06,
		Run:   runC06,
		Config: func(cs Case) simrt.Config {
			if cs.(*c06Case).Limit > 65536 {
				// up to six messages of up to three times a multi-megabyte limit
				return simrt.Config{NoJumps: true, MaxSteps: 60000000, MaxSimTime: 48 * time.Hour}
			}
			return simrt.Config{NoJumps: true, MaxSteps: 5000000, MaxSimTime: 24 * time.Hour}
		},
		BudgetIsViolation: true,
		QuickRuns:         3000,
		ThoroughRuns:      60000,
		Rule: "real SMTP server with MaxMessageBytes L in {1 KiB .. 64 KiB} (thorough: up to 4 MiB) on the simulated network; one session sends " +
			"1-4 messages whose data size sits at L/2, L-slack, L+slack, 2L, 3L or inside the band |s-L|<slack, with the SIZE parameter absent, " +
			"truthful, understated or overstated, followed by a small message on the same connection. Oracle: declared SIZE > L => MAIL " +
			"refused; s >= L+slack counting line ends as one byte => refusal after the data and nothing stored; s <= L-slack counting them as two => accepted and stored; every later transaction " +
			"on the session still works; in a third of the runs one more message follows whose data (L/2 .. 3L bytes) is transmitted without the end-of-data line " +
			"before the connection is closed, reset or left silent past the timeout - nothing of it may be stored; nothing larger than L+2*slack (trace headers included) is ever found in any mailbox. slack = 512 bytes covers CRLF/LF, " +
			"terminator, dot-stuffing and header-counting ambiguity. non-trivial = at least one oversized message was transmitted",
		Real:        []string{"pkg/server/smtp", "pkg/message", "stores", "net/textproto"},
		Stub:        []string{"TCP (simnet)", "scheduler", "clock", "disk"},
		Assumptions: []string{"'size' of a message is the length of its data, line ends counted as CRLF or as LF (the statement does not say); sizes for which the two measures fall on different sides of the limit, or within 512 bytes of it, are unconstrained"},
	})
}
