package harness

import (
	"bufio"
	"bytes"
	"context"
	"encoding/json"
	"fmt"
	"github.com/gorilla/websocket"
	"io"
	"net/url"
	"sort"
	"strconv"
	"strings"
	"time"

	"github.com/inbucket/inbucket/v3/pkg/extension"
	"github.com/inbucket/inbucket/v3/pkg/rest/client"
	"github.com/inbucket/inbucket/v3/pkg/server/pop3"
	"github.com/inbucket/inbucket/v3/vsim/models"
	"github.com/inbucket/inbucket/v3/vsim/simnet"
	"github.com/inbucket/inbucket/v3/vsim/simrt"
)

// C04: mailbox naming is canonical across interfaces.

// c04Addr is a RCPT address in structured form, so that case and +tag
// variants are made from the structure, not by string surgery.
type c04Addr struct {
	Route  string // "" or "@relay.example,@b.example:"
	Local  string // local part up to the first '+' ("" = empty base name)
	Tag    string // "" or "+..." (the '+extension', may itself contain '+')
	Domain string
	Style  int // 0 plain, 1 quoted string, 2 one character backslash-escaped
}

func (a c04Addr) String() string {
	lp := a.Local + a.Tag
	switch a.Style {
	case 1:
		lp = `"` + lp + `"`
	case 2:
		if len(lp) > 0 {
			i := len(lp) / 2
			lp = lp[:i] + `\` + lp[i:]
		}
	}
	return a.Route + lp + "@" + a.Domain
}

// caseVariant permutes letter case everywhere (or everywhere but the domain).
func (a c04Addr) caseVariant(keepDomain bool) c04Addr {
	v := a
	v.Local, v.Tag = caseMix(a.Local), caseMix(a.Tag)
	if !keepDomain {
		v.Domain = caseMix(a.Domain)
	}
	return v
}

// tagVariant adds a +extension if there is none and removes it otherwise.
func (a c04Addr) tagVariant() c04Addr {
	v := a
	if a.Tag == "" {
		v.Tag = "+zz9"
	} else {
		v.Tag = ""
	}
	return v
}

type c04Mail struct {
	A    c04Addr
	Also string // "", "case", "tag": a second message is sent to that variant of the address
}

type c04Case struct {
	Store  StoreCfg
	Naming string
	Base   string
	Net    simnet.Profile
	Enc    int
	Mails  []c04Mail
	POP3   string // "all": POP3 USER by every key; "names": by mailbox names only; "": no POP3
	// features that known defects make fatal are switched on per run, so that
	// most runs get past them even without an avoid switch
	Slash      bool // "/" may occur in local parts and +extensions
	EmptyBase  bool // local parts consisting of a +extension only may occur
	DomainCase bool // mixed-case domains may occur and case variants permute the domain too
}

func (k *c04Case) Describe() []string {
	l := []string{fmt.Sprintf("store=%s naming=%s basepath=%q enc=%d pop3=%q slash=%v emptyBase=%v domainCase=%v %s", k.Store, k.Naming, k.Base, k.Enc, k.POP3, k.Slash, k.EmptyBase, k.DomainCase, profileString(k.Net))}
	for i, m := range k.Mails {
		l = append(l, fmt.Sprintf("mail%d RCPT <%s> also=%q (route=%q local=%q tag=%q domain=%q style=%d)", i, m.A, m.Also, m.A.Route, m.A.Local, m.A.Tag, m.A.Domain, m.A.Style))
	}
	return l
}

var c04Locals = []string{"alice", "Bob", "carol.d", "DAVE-e_f", "x", "mixedCASE.Name", "a.b.c", "per%cent", "q?x=1", "am&p", "ha#sh", "it's", "c^r{t}|~", "do$l!"}
var c04SlashLocals = []string{"a/b", "Dir/Sub/leaf", "a/latest"}
var c04Tags = []string{"", "", "+tag", "+x.y", "+A+B", "+", "+TAG/1"}
var c04DomainsLower = []string{"example.com", "mail.example.org", "sub-1.example.net", "[192.168.0.1]", "[10.0.0.7]"}
var c04DomainsMixed = []string{"Example.COM", "MAIL.Example.Org", "example.NET"}
var c04Routes = []string{"", "", "", "@relay.example:", "@a.example,@B.example:"}

func genC04(w *simrt.Choices, tier string, avoid map[string]bool) Case {
	k := &c04Case{}
	k.Store = StoreCfg{Backend: []string{"mem", "mem", "file"}[w.Choose(3)]}
	k.Naming = []string{"local", "full", "domain"}[w.Choose(3)]
	k.Base = basePaths[w.Choose(len(basePaths))]
	k.Net = netProfile(w)
	k.Enc = w.Choose(2)
	k.Slash = w.Choose(10) == 9 && !avoid["slash-in-name"]
	k.EmptyBase = w.Choose(10) == 9 && !avoid["empty-base"]
	k.DomainCase = w.Choose(6) == 5 && !avoid["domain-case"]
	k.POP3 = []string{"", "", "", "names", "names", "all", "all", "all"}[w.Choose(8)]
	if avoid["pop3-naming"] && k.POP3 == "all" {
		k.POP3 = "names"
	}
	n := 1 + w.Choose(3)
	for i := 0; i < n; i++ {
		var a c04Addr
		switch p := w.Choose(3); {
		case k.Slash && (p == 2 || i == 0):
			a.Local = c04SlashLocals[w.Choose(len(c04SlashLocals))]
		case k.EmptyBase && (p == 1 || i == 0):
			a.Local = ""
		default:
			a.Local = c04Locals[w.Choose(len(c04Locals))]
		}
		a.Tag = c04Tags[w.Choose(len(c04Tags))]
		if !k.Slash {
			a.Tag = strings.ReplaceAll(a.Tag, "/", "-")
		}
		if a.Local == "" && a.Tag == "" {
			a.Tag = "+only"
		}
		if w.Choose(3) == 2 && k.DomainCase {
			a.Domain = c04DomainsMixed[w.Choose(len(c04DomainsMixed))]
		} else {
			a.Domain = c04DomainsLower[w.Choose(len(c04DomainsLower))]
		}
		a.Route = c04Routes[w.Choose(len(c04Routes))]
		a.Style = []int{0, 0, 1, 2}[w.Choose(4)]
		m := c04Mail{A: a, Also: []string{"", "", "case", "tag"}[w.Choose(4)]}
		k.Mails = append(k.Mails, m)
	}
	return k
}

// ---- minimal POP3 client ----

type c04POP3 struct {
	c       *Ctx
	name    string
	conn    *simnet.Conn
	br      *bufio.Reader
	timeout time.Duration
}

func c04DialPOP3(c *Ctx, name string) (*c04POP3, error) {
	conn, err := simnet.Dial(pop3Addr)
	if err != nil {
		return nil, err
	}
	return &c04POP3{c: c, name: name, conn: conn, br: bufio.NewReaderSize(conn, 512), timeout: 900 * time.Second}, nil
}

func (p *c04POP3) readLine() (string, error) {
	_ = p.conn.SetReadDeadline(time.Now().Add(p.timeout))
	line, err := p.br.ReadString('\n')
	if err != nil {
		return line, err
	}
	return strings.TrimRight(line, "\r\n"), nil
}

// cmd sends a command and reads the status line.
func (p *c04POP3) cmd(line string) (string, error) {
	_ = p.conn.SetWriteDeadline(time.Now().Add(p.timeout))
	if _, err := p.conn.Write([]byte(line + "\r\n")); err != nil {
		return "", err
	}
	rp, err := p.readLine()
	p.c.Logf("%s -> %q <- %q err=%v", p.name, clipStr(line, 100), clipStr(rp, 100), err)
	return rp, err
}

// multi reads a multi-line response body up to the terminating ".".
func (p *c04POP3) multi() ([]byte, error) {
	var b bytes.Buffer
	for n := 0; n < 100000; n++ {
		l, err := p.readLine()
		if err != nil {
			return b.Bytes(), err
		}
		if l == "." {
			return b.Bytes(), nil
		}
		l = strings.TrimPrefix(l, ".")
		b.WriteString(l)
		b.WriteString("\r\n")
	}
	return b.Bytes(), fmt.Errorf("multi-line response never ends")
}

// c04POP3Find logs in as user and looks for a message containing token.
// outcome: ok | not-found | error
func c04POP3Find(c *Ctx, name, user, token string, del ...bool) (outcome, detail string) {
	p, err := c04DialPOP3(c, name)
	if err != nil {
		return "error", "dial: " + err.Error()
	}
	defer p.conn.Close()
	if g, err := p.readLine(); err != nil || !strings.HasPrefix(g, "+OK") {
		return "error", fmt.Sprintf("greeting %q err=%v", g, err)
	}
	if rp, err := p.cmd("USER " + user); err != nil || !strings.HasPrefix(rp, "+OK") {
		return "error", fmt.Sprintf("USER answered %q err=%v", rp, err)
	}
	if rp, err := p.cmd("PASS secret"); err != nil || !strings.HasPrefix(rp, "+OK") {
		return "error", fmt.Sprintf("PASS answered %q err=%v", rp, err)
	}
	rp, err := p.cmd("STAT")
	f := strings.Fields(rp)
	if err != nil || len(f) < 3 || f[0] != "+OK" {
		return "error", fmt.Sprintf("STAT answered %q err=%v", rp, err)
	}
	n, cerr := strconv.Atoi(f[1])
	if cerr != nil {
		return "error", fmt.Sprintf("STAT answered %q", rp)
	}
	found := false
	for i := n; i >= 1 && !found; i-- {
		rp, err := p.cmd("RETR " + strconv.Itoa(i))
		if err != nil || !strings.HasPrefix(rp, "+OK") {
			return "error", fmt.Sprintf("RETR %d answered %q err=%v", i, rp, err)
		}
		body, err := p.multi()
		if err != nil {
			return "error", fmt.Sprintf("RETR %d: %v", i, err)
		}
		found = hasToken(body, token)
		if found && len(del) > 0 && del[0] {
			// ... and delete it through this session: DELE, committed by QUIT
			if rp, err := p.cmd("DELE " + strconv.Itoa(i)); err != nil || !strings.HasPrefix(rp, "+OK") {
				return "error", fmt.Sprintf("DELE %d answered %q err=%v", i, rp, err)
			}
			if rp, err := p.cmd("QUIT"); err != nil || !strings.HasPrefix(rp, "+OK") {
				return "error", fmt.Sprintf("QUIT after DELE answered %q err=%v", rp, err)
			}
			_ = p.conn.SetReadDeadline(time.Now().Add(p.timeout))
			_, _ = p.br.ReadByte() // wait for the server to close: the deletions are applied by then
			return "ok", ""
		}
	}
	_, _ = p.cmd("QUIT")
	if !found {
		return "not-found", fmt.Sprintf("mailbox of USER %q has %d messages, none is %s", user, n, token)
	}
	return "ok", ""
}

// hasToken reports whether message text carries the body line of token (line
// endings may have been normalised on the way in).
func hasToken(b []byte, token string) bool {
	return bytes.Contains(normLF(b), []byte("body of "+token+"\n"))
}

// ---- the check ----

type c04Sent struct {
	mi      int
	addr    c04Addr
	rcpt    string // as sent
	token   string
	variant string // "" for the primary message
	box     string // mailbox holding the token (from the store)
	id      string
}

type c04Fail struct {
	iface, key, keyStr, outcome, detail string
}

// c04Monitor opens a WebSocket monitor on the real router (over a simulated
// connection, upgrade shim of C15), collects what the server sends until it
// has been silent for two simulated seconds and returns the subjects of the
// stored-message events.
func c04Monitor(c *Ctx, port int, path string) (subjects []string, err error) {
	cli, srv := simnet.Of(c.Sim).Pipe(fmt.Sprintf("192.0.2.9:%d", 20000+port), "127.0.0.1:9000")
	simrt.Go("ws-server", func() { serveUpgrade(c, srv) })
	u, perr := url.Parse("ws://" + webHost + path)
	if perr != nil {
		return nil, perr
	}
	wc, _, derr := websocket.NewClient(cli, u, nil, 1024, 1024)
	if derr != nil {
		_ = cli.Close()
		return nil, derr
	}
	defer cli.Close()
	for {
		_ = wc.SetReadDeadline(time.Now().Add(2 * time.Second))
		_, data, rerr := wc.ReadMessage()
		if rerr != nil {
			return subjects, nil
		}
		var h struct {
			Subject string `json:"subject"`
			Variant string `json:"variant"`
			Header  *struct {
				Subject string `json:"subject"`
			} `json:"header"`
		}
		if json.Unmarshal(data, &h) != nil {
			continue
		}
		if h.Header != nil {
			if h.Variant == "message-stored" {
				subjects = append(subjects, h.Header.Subject)
			}
		} else if h.Subject != "" {
			subjects = append(subjects, h.Subject)
		}
	}
}

type c04Run struct {
	wsToken string
	monPort int
	c       *Ctx
	k       *c04Case
	web     *webEnv
	cl      *client.Client
}

var c04HTTPIfaces = []string{"rest-list", "rest-get", "rest-source", "ui-message", "ui-source", "client-list", "client-get", "client-source", "ws1-monitor", "ws2-monitor"}

// lookup asks one interface for the token by key.  outcome: ok | not-found |
// 5xx | panic | <code>; reported = the mailbox name the server put in its reply.
func (r *c04Run) lookup(iface, key, id, token string) (outcome, reported, detail string) {
	e := r.web
	ek, eid := encSeg(key, r.k.Enc), encSeg(id, r.k.Enc)
	status := func(resp httpResp) string {
		switch {
		case resp.Panic != "":
			return "panic"
		case resp.Code >= 500:
			return "5xx"
		case resp.Code == 404:
			return "not-found"
		case resp.Code != 200:
			return fmt.Sprint(resp.Code)
		}
		return ""
	}
	clientOutcome := func(err error) string {
		if s := status(e.last); s != "" {
			return s
		}
		return "client-error"
	}
	switch iface {
	case "ws1-monitor", "ws2-monitor":
		// the per-mailbox WebSocket monitor: a client subscribing under this key is
		// played the retained history of that mailbox first
		if r.wsToken == "" {
			r.wsToken = token
		}
		if token != r.wsToken {
			return "ok", "", "" // monitors are opened for the first message of a run only (cost)
		}
		ver := 1
		if iface == "ws2-monitor" {
			ver = 2
		}
		path := e.prefix(fmt.Sprintf("/api/v%d/monitor/messages/%s", ver, ek))
		r.monPort++ // per run: nothing that is logged may depend on earlier runs of the process
		subjects, err := c04Monitor(r.c, r.monPort, path)
		if err != nil {
			return "not-found", "", fmt.Sprintf("GET %s (WebSocket): %v", path, err)
		}
		for _, sj := range subjects {
			if sj == token {
				return "ok", "", ""
			}
		}
		return "not-found", "", fmt.Sprintf("WebSocket monitor %s replayed %d stored messages, none is %s", path, len(subjects), token)
	case "rest-list":
		resp := e.request("GET", e.apiPath(ek), nil)
		if s := status(resp); s != "" {
			return s, "", resp.Line + " -> " + resp.String()
		}
		l, err := decodeList(resp.Body)
		if err != nil {
			return "not-found", "", fmt.Sprintf("%s -> %s: not a message list: %v", resp.Line, resp, err)
		}
		for _, m := range l {
			if m.Subject == token {
				if m.Mailbox == nil {
					return "ok", "", ""
				}
				return "ok", "=" + m.mailbox(), ""
			}
		}
		return "not-found", "", fmt.Sprintf("%s -> list of %d messages without %s", resp.Line, len(l), token)
	case "rest-get", "ui-message":
		target := e.apiPath(ek, eid)
		if iface == "ui-message" {
			target = e.uiPath(ek, eid)
		}
		resp := e.request("GET", target, nil)
		if s := status(resp); s != "" {
			return s, "", resp.Line + " -> " + resp.String()
		}
		m, err := decodeMsg(resp.Body)
		if err != nil || m.Subject != token {
			return "not-found", "", fmt.Sprintf("%s -> %s: not message %s", resp.Line, resp, token)
		}
		if m.Mailbox == nil {
			return "ok", "", ""
		}
		return "ok", "=" + m.mailbox(), ""
	case "rest-source", "ui-source":
		target := e.apiPath(ek, eid, "source")
		if iface == "ui-source" {
			target = e.uiPath(ek, eid, "source")
		}
		resp := e.request("GET", target, nil)
		if s := status(resp); s != "" {
			return s, "", resp.Line + " -> " + resp.String()
		}
		if !hasToken(resp.Body, token) {
			return "not-found", "", fmt.Sprintf("%s -> source of another message", resp.Line)
		}
		return "ok", "", ""
	case "client-list":
		hs, err := r.cl.ListMailbox(key)
		if err != nil {
			return clientOutcome(err), "", fmt.Sprintf("ListMailbox(%q): %v", key, err)
		}
		for _, h := range hs {
			if h != nil && h.JSONMessageHeaderV1 != nil && h.Subject == token {
				return "ok", "=" + h.Mailbox, ""
			}
		}
		return "not-found", "", fmt.Sprintf("ListMailbox(%q): %d messages, none is %s", key, len(hs), token)
	case "client-get":
		m, err := r.cl.GetMessage(key, id)
		if err != nil {
			return clientOutcome(err), "", fmt.Sprintf("GetMessage(%q, %q): %v", key, id, err)
		}
		if m == nil || m.JSONMessageV1 == nil || m.Subject != token {
			return "not-found", "", fmt.Sprintf("GetMessage(%q, %q) returned another message", key, id)
		}
		return "ok", "=" + m.Mailbox, ""
	case "client-source":
		b, err := r.cl.GetMessageSource(key, id)
		if err != nil {
			return clientOutcome(err), "", fmt.Sprintf("GetMessageSource(%q, %q): %v", key, id, err)
		}
		if b == nil || !hasToken(b.Bytes(), token) {
			return "not-found", "", fmt.Sprintf("GetMessageSource(%q, %q) returned another message", key, id)
		}
		return "ok", "", ""
	}
	panic("harness: unknown interface " + iface)
}

// report turns the failures of one key into one violation with the most
// general class that describes them.
func (r *c04Run) report(s *c04Sent, group string, tried int, fails []c04Fail) {
	if len(fails) == 0 {
		return
	}
	f0 := fails[0]
	uniform := len(fails) == tried
	for _, f := range fails {
		if f.outcome != f0.outcome {
			uniform = false
		}
	}
	who := group
	if !uniform {
		who = f0.iface
	}
	var failed []string
	for _, f := range fails {
		failed = append(failed, f.iface+":"+f.outcome)
	}
	msg := fmt.Sprintf("mail to <%s> (naming %s) is stored in mailbox %q; asking for it by %s %q fails on %d of %d %s interfaces (%s); first: %s",
		s.rcpt, r.k.Naming, s.box, f0.key, f0.keyStr, len(fails), tried, group, strings.Join(failed, " "), f0.detail)
	_, nameable := models.MailboxName(r.k.Naming, s.rcpt)
	kd, bd := domainOfKey(r.k.Naming, f0.keyStr), domainOfBox(r.k.Naming, s.box)
	switch {
	case strings.Contains(f0.keyStr, "/") && group == "http":
		// one class for everything a "/" in the key breaks on the HTTP side
		r.c.Failf("name-with-slash-not-reached", "%s", msg)
	case !nameable:
		// the address has no base name in this mode (local part is only a +extension)
		r.c.Failf("empty-base("+r.k.Naming+")/"+who+"/"+f0.key+"->"+f0.outcome, "%s", msg)
	case group == "pop3" && f0.outcome == "not-found" && f0.keyStr != s.box:
		// POP3 found nothing under a key that is not literally the stored name
		r.c.Failf("pop3/USER-other-than-stored-name->not-found", "%s", msg)
	case f0.outcome == "not-found" && kd != bd && strings.EqualFold(kd, bd):
		// the key's domain and the stored mailbox's domain differ in letter case only
		r.c.Failf("domain-case("+r.k.Naming+")/lookup->not-found", "%s", msg)
	default:
		r.c.Failf(r.k.Naming+"/"+who+"/"+f0.key+"->"+f0.outcome, "%s", msg)
	}
}

// domainOfKey returns the domain a lookup key carries ("" if none).
func domainOfKey(mode, key string) string {
	if models.HasDomain(key) {
		_, d, _ := models.SplitAddress(key)
		return d
	}
	if mode == "domain" {
		return key
	}
	return ""
}

// domainOfBox returns the domain part of a stored mailbox name ("" in local mode).
func domainOfBox(mode, box string) string {
	switch mode {
	case "full":
		if i := strings.LastIndex(box, "@"); i >= 0 {
			return box[i+1:]
		}
	case "domain":
		return box
	}
	return ""
}

// keysFor lists the lookup keys of a stored message in checking order.
func (r *c04Run) keysFor(s *c04Sent, reported string) (kinds, keys []string) {
	add := func(kind, key string) {
		kinds, keys = append(kinds, kind), append(keys, key)
	}
	add("address-as-sent", s.rcpt)
	if mn, ok := models.MailboxName(r.k.Naming, s.rcpt); ok {
		add("model-name", mn)
	}
	if reported != "" {
		add("reported-name", reported)
	}
	add("case-variant", s.addr.caseVariant(!r.k.DomainCase).String())
	if s.addr.Local != "" {
		add("tag-variant", s.addr.tagVariant().String())
	}
	return
}

func runC04(c *Ctx, cs Case) {
	k := cs.(*c04Case)
	if k.Store.Backend == "file" {
		ensureFS(c.Sim)
	}
	simnet.Of(c.Sim).Profile = k.Net
	eh := extension.NewHost()
	st, err := openStore(k.Store, eh)
	if err != nil {
		panic("harness: cannot open store: " + err.Error())
	}
	root := baseRoot()
	setNaming(root, k.Naming)
	root.Web.BasePath = k.Base
	root.Web.UIDir = "/nonexistent/ui"
	env := startSMTP(c, root, st, eh)
	web := startWeb(c, root, env.mgr, eh)
	r := &c04Run{c: c, k: k, web: web, cl: web.newClient()}

	// POP3 server, started like lifecycle.go does
	psrv, err := pop3.NewServer(root.POP3, st)
	if err != nil {
		panic("harness: pop3.NewServer: " + err.Error())
	}
	psrv.UseAddressPolicy(env.ap) // as server.FullAssembly does
	pctx, pcancel := context.WithCancel(context.Background())
	pready := false
	simrt.Go("pop3.Start", func() { psrv.Start(pctx, func() { pready = true }) })
	c.Main.Quiesce()
	if !pready {
		panic("harness: POP3 server did not become ready")
	}

	// ---- receive: one SMTP session, one transaction per address ----
	var sent []*c04Sent
	cl, err := dialSMTP(c, "smtp", 400*time.Second)
	if err != nil {
		c.Failf("dial-refused", "%v", err)
		return
	}
	if g := cl.readReply(); g.Code != 220 {
		c.Failf("no-greeting", "expected 220 greeting, got %s", g)
		return
	}
	cl.cmd("EHLO client.sim")
	tok := 0
	deliver := func(mi int, a c04Addr, variant string) *c04Sent {
		tok++
		s := &c04Sent{mi: mi, addr: a, rcpt: a.String(), token: fmt.Sprintf("tok%d", tok), variant: variant}
		if !cl.cmd("MAIL FROM:<sender@example.org>").ok2xx() {
			c.Failf("mail-from-refused", "MAIL FROM refused")
			return nil
		}
		if rp := cl.cmd("RCPT TO:<" + s.rcpt + ">"); !rp.ok2xx() {
			c.Stat("probe.rcpt_refused", 1)
			// a client that simply tries the same recipient again; if the server now
			// accepts it the delivery goes on and the naming checks below judge the result
			if rp2 := cl.cmd("RCPT TO:<" + s.rcpt + ">"); !rp2.ok2xx() {
				cl.cmd("RSET")
				return nil
			}
			c.Stat("probe.rcpt_accepted_on_second_attempt", 1)
		}
		if rp := cl.cmd("DATA"); rp.Code != 354 {
			c.Failf("data-refused", "DATA after an accepted RCPT answered %s", rp)
			return nil
		}
		if rp := cl.sendData(mkMessage(s.token, "hdrfrom@sender.test", []string{"rcpt@example.com"}, 30, uint64(tok))); rp.Code != 250 {
			c.Failf("message-refused", "end of data answered %s", rp)
			return nil
		}
		c.Stat("probe.rcpt_accepted", 1)
		return s
	}
	for mi, m := range k.Mails {
		if s := deliver(mi, m.A, ""); s != nil {
			sent = append(sent, s)
			switch m.Also {
			case "case":
				if v := deliver(mi, m.A.caseVariant(!k.DomainCase), "case-variant"); v != nil {
					sent = append(sent, v)
				}
			case "tag":
				if m.A.Local != "" {
					if v := deliver(mi, m.A.tagVariant(), "tag-variant"); v != nil {
						sent = append(sent, v)
					}
				}
			}
		}
		if c.Failed() {
			return
		}
	}
	cl.cmd("QUIT")
	cl.close()
	env.stop()
	if len(sent) == 0 {
		return
	}

	// ---- where did the mail go? ----
	dump, err := dumpStore(st, nil)
	if err != nil {
		c.Failf("store-read-error", "reading the store back: %v", err)
		return
	}
	var boxes []string
	for b := range dump {
		boxes = append(boxes, b)
	}
	sort.Strings(boxes)
	for _, s := range sent {
		n := 0
		for _, b := range boxes {
			for _, m := range dump[b] {
				if m.Token == s.token {
					n++
					s.box, s.id = b, m.ID
				}
			}
		}
		if n != 1 {
			c.Failf("stored-copies!=1", "mail %s to <%s> was acknowledged with 250 but the store holds %d copies (mailboxes %q)", s.token, s.rcpt, n, boxes)
			return
		}
		c.Logf("%s RCPT <%s> -> mailbox %q id %s", s.token, s.rcpt, s.box, s.id)
	}
	// the name derived at receive time is non-empty, and independent of case / +extension
	prim := map[int]*c04Sent{}
	for _, s := range sent {
		if s.box == "" {
			c.Failf("empty-mailbox-name("+k.Naming+")", "mail to <%s> (accepted by RCPT, naming %s) was stored in the mailbox with the empty name", s.rcpt, k.Naming)
		}
		if s.variant == "" {
			prim[s.mi] = s
		} else if p := prim[s.mi]; p != nil && p.box != s.box {
			c.Stat("probe.variant_delivered", 1)
			class := "smtp/" + s.variant + "-stored-elsewhere(" + k.Naming + ")"
			if pd, sd := domainOfBox(k.Naming, p.box), domainOfBox(k.Naming, s.box); pd != sd && strings.EqualFold(pd, sd) {
				class = "domain-case(" + k.Naming + ")/stored-elsewhere"
			}
			c.Failf(class, "mail to <%s> is stored in mailbox %q, mail to its %s <%s> in mailbox %q (naming %s)",
				p.rcpt, p.box, s.variant, s.rcpt, s.box, k.Naming)
		} else {
			c.Stat("probe.variant_delivered", 1)
		}
	}

	// ---- every read interface, every way of asking ----
	lookups := 0
	for _, s := range sent {
		if c.Failed() {
			break
		}
		// the name the server reports when asked by the address as sent
		reported := ""
		for _, iface := range []string{"rest-list", "rest-get", "ui-message", "client-list", "client-get"} {
			if oc, rep, _ := r.lookup(iface, s.rcpt, s.id, s.token); oc == "ok" && strings.HasPrefix(rep, "=") {
				if rep == "=" {
					c.Failf("reported-name-empty("+k.Naming+")", "%s by <%s> found %s but reports an empty mailbox name", iface, s.rcpt, s.token)
				} else if reported == "" {
					reported = rep[1:]
				} else if rep[1:] != reported {
					c.Failf("reported-names-differ("+k.Naming+")", "asked by <%s>, %s reports mailbox %q but an earlier interface reported %q", s.rcpt, iface, rep[1:], reported)
				}
			}
		}
		if reported != "" && reported != s.box {
			c.Failf("reported-name-is-not-the-stored-name("+k.Naming+")", "mail to <%s> is stored in mailbox %q but the API reports mailbox %q", s.rcpt, s.box, reported)
		}
		kinds, keys := r.keysFor(s, reported)
		for ki, kind := range kinds {
			var fails []c04Fail
			for _, iface := range c04HTTPIfaces {
				lookups++
				oc, rep, detail := r.lookup(iface, keys[ki], s.id, s.token)
				if oc != "ok" {
					fails = append(fails, c04Fail{iface, kind, keys[ki], oc, detail})
					continue
				}
				if kind == "reported-name" && strings.HasPrefix(rep, "=") && rep[1:] != keys[ki] {
					fails = append(fails, c04Fail{iface, kind, keys[ki], "not-a-fixed-point", fmt.Sprintf("%s by name %q reports name %q", iface, keys[ki], rep[1:])})
				}
			}
			r.report(s, "http", len(c04HTTPIfaces), fails)
			if c.Failed() {
				break
			}
		}
	}
	deleted := map[int]bool{}
	if k.POP3 != "" && !c.Failed() {
		for si, s := range sent {
			if deleted[si] {
				continue
			}
			kinds, keys := r.keysFor(s, s.box)
			for ki, kind := range kinds {
				if k.POP3 == "names" && kind != "model-name" && kind != "reported-name" {
					continue
				}
				if strings.ContainsAny(keys[ki], " \t") {
					c.Stat("probe.pop3_key_with_space_skipped", 1)
					continue
				}
				lookups++
				c.Stat("probe.pop3_sessions", 1)
				// the last spelling tried for a message also deletes it through POP3:
				// the deletion must reach the mailbox the session was reading
				last := ki == len(kinds)-1 || (k.POP3 == "names" && kind == "reported-name")
				oc, detail := c04POP3Find(c, fmt.Sprintf("pop3.%d.%d", si, ki), keys[ki], s.token, last)
				if oc != "ok" {
					r.report(s, "pop3", 1, []c04Fail{{"pop3", kind, keys[ki], oc, detail}})
				} else if last {
					c.Main.Quiesce()
					c.Stat("probe.pop3_delete_by_name", 1)
					ms, err := st.GetMessages(s.box)
					if err != nil {
						c.Failf("store-read-error", "%v", err)
						break
					}
					for _, m := range ms {
						if rd, err := m.Source(); err == nil {
							b, _ := io.ReadAll(rd)
							_ = rd.Close()
							if hasToken(b, s.token) {
								cls := "pop3/DELE+QUIT-by-" + kind + "->message-still-there"
								if keys[ki] == s.box {
									cls = "pop3/DELE+QUIT-by-stored-name->message-still-there"
								}
								c.Failf(cls, "mail to <%s> (naming %s) is stored in mailbox %q; a POP3 session logged in as %q (%s) retrieved it, DELE and QUIT were answered +OK, and the message is still in the mailbox",
									s.rcpt, k.Naming, s.box, keys[ki], kind)
							}
						}
					}
					deleted[si] = true
				}
				if c.Failed() {
					break
				}
			}
			if c.Failed() {
				break
			}
		}
	}
	pcancel()
	psrv.Drain()
	c.Main.Quiesce()
	c.Stat("probe.lookups", int64(lookups))
	var shape []string
	for _, s := range sent {
		shape = append(shape, s.rcpt)
	}
	c.NonTrivial(k.Naming, k.Store.Backend, strings.Join(shape, " "), k.POP3)
	c.Distinct("addresses", k.Naming, strings.Join(shape, " "))
}

func init() {
	register(&Prop{
		ID:    "C04",
		Level: "exploration",
		Gen:   genC04,
		Run:   runC04,
		Config: func(cs Case) simrt.Config {
			return simrt.Config{NoJumps: true, MaxSteps: 600000, MaxSimTime: 12 * time.Hour}
		},
		BudgetIsViolation: true,
		QuickRuns:         2200,
		ThoroughRuns:      44000,
		Rule: "the assembled system: real SMTP and POP3 servers on the simulated network, REST and web-UI routes on a fresh router under a seeded base " +
			"path, the bundled Go client over an in-process transport, one StoreManager over the real memory or file store. Per run a naming mode " +
			"(local/full/domain) and 1-3 structured recipient addresses (local parts: plain, mixed case, dots, URL-significant characters, slashes, " +
			"empty base; +extensions incl. '+' alone and several '+'; name and IPv4-literal domains in lower and mixed case; optional source route; " +
			"plain, quoted-string or backslash-escaped rendering), each sent in its own SMTP transaction, optionally followed by a message to its " +
			"case-permuted or +tag-toggled variant. Only RCPT-accepted addresses count (reply-driven). Then the mailbox holding each token is read " +
			"from the store and the token is looked up through REST list/get/source, web-UI message/source, client ListMailbox/GetMessage/" +
			"GetMessageSource and POP3 USER/PASS/STAT/RETR by (a) the address as sent, (b) the reference model's name, (c) the name the server " +
			"reported, (d) a case-permuted address, (e) the address with a +tag added/removed. Four features are switched on per run only (1/10 " +
			"slash in local part or +extension, 1/10 empty base name, 1/6 mixed-case domains and domain case permutation, 1/8 POP3 USER by " +
			"addresses and variants rather than by mailbox names only) and off by the avoid switches slash-in-name, empty-base, domain-case, " +
			"pop3-naming. Oracle: every lookup reaches the message; stored and " +
			"reported names are non-empty, equal, and a fixed point; variants are stored in the same mailbox. What the simulator adds here is reach " +
			"across the assembled interfaces, not schedule or fault power. non-trivial = at least one accepted address; distinct by naming mode and address set",
		Real: []string{"pkg/server/smtp", "pkg/server/pop3", "pkg/policy", "pkg/message", "gorilla/mux router", "pkg/rest", "pkg/rest/client",
			"pkg/webui (controllers)", "pkg/server/web", "pkg/storage/mem", "pkg/storage/file", "pkg/msghub"},
		Stub: []string{"TCP (simnet) for SMTP and POP3", "HTTP connection (requests are handed to web.Router.ServeHTTP in wire-parsed form)", "disk (simfs)", "scheduler", "sync", "clock"},
		Assumptions: []string{
			"the reference naming model is written from doc/config.md and the property text and imports nothing from Inbucket",
			"IPv6 address literals are not generated (whether the 'IPv6:' tag is subject to case folding is not settled by the documents)",
			"addresses RCPT refuses are outside the quantifier and only counted (probe.rcpt_refused)",
			"raw requests are percent-encoded by the harness in one of two proper styles; the client encodes by itself",
		},
	})
}
