package harness

import (
	"fmt"
	"strings"
	"time"

	"github.com/inbucket/inbucket/v3/pkg/extension"
	"github.com/inbucket/inbucket/v3/pkg/storage"
	"github.com/inbucket/inbucket/v3/vsim/models"
	"github.com/inbucket/inbucket/v3/vsim/simrt"
)

// ---- shared store-operation vocabulary (C07, C08, C10, C11) ----

// SOp is one store operation of a generated history.
type SOp struct {
	Kind    string // add get latest list seen remove purge visit reopen
	Mailbox string
	Ref     int    // index into the ids ever issued in Mailbox; -1 = never-issued id
	BadID   string // used when Ref == -1
	Msg     *models.Msg
	NewCap  int // reopen (C10): 0 = configuration unchanged, n > 0 = restarted with message cap n, -1 = restarted without a cap
}

func (o SOp) String() string {
	switch o.Kind {
	case "add":
		return fmt.Sprintf("add %q subj=%q from=%v to=%d body=%dB date=%s", o.Mailbox, o.Msg.Subject, o.Msg.From, len(o.Msg.To), len(o.Msg.Body), o.Msg.Date.Format(time.RFC3339Nano))
	case "addfail":
		return fmt.Sprintf("add %q body=%dB from a source that fails after %d bytes", o.Mailbox, len(o.Msg.Body), len(o.Msg.Body)/2)
	case "get", "seen", "remove":
		if o.Ref < 0 {
			return fmt.Sprintf("%s %q id=%q(never issued)", o.Kind, o.Mailbox, o.BadID)
		}
		return fmt.Sprintf("%s %q #%d", o.Kind, o.Mailbox, o.Ref)
	}
	if o.Kind == "reopen" && o.NewCap != 0 {
		return fmt.Sprintf("reopen with message cap %d", o.NewCap)
	}
	return fmt.Sprintf("%s %q", o.Kind, o.Mailbox)
}

type storeHistory struct {
	Cfgs  []StoreCfg
	Names []string
	Ops   []SOp
	// optional second client on disjoint mailboxes (C11)
	Names2 []string
	Ops2   []SOp
	// SkipIDs > 0 (C10): the process has already issued that many message ids when the history starts
	SkipIDs int
	// Fault (C10): a disk fault during operation number Fault.Target
	Fault fsFault
}

func (h *storeHistory) Describe() []string {
	var l []string
	for _, c := range h.Cfgs {
		l = append(l, "store "+c.String())
	}
	l = append(l, "mailboxes "+strings.Join(h.Names, " | "))
	if h.SkipIDs > 0 {
		l = append(l, fmt.Sprintf("the process has issued %d message ids before", h.SkipIDs))
	}
	if h.Fault.On {
		l = append(l, h.Fault.String())
	}
	for i, o := range h.Ops {
		l = append(l, fmt.Sprintf("%3d %s", i, o.String()))
	}
	if len(h.Ops2) > 0 {
		l = append(l, "second client on mailboxes "+strings.Join(h.Names2, " | "))
		for i, o := range h.Ops2 {
			l = append(l, fmt.Sprintf("  b%2d %s", i, o.String()))
		}
	}
	return l
}

// ids no store issues (the simulated clock starts in 2000; a file-store id of 1999 cannot occur)
var badIDs = []string{"0", "999999", "19990101T000000-9999", "latestx", "", "-1", "1e3", "01"}

var subjects = []string{"hello", "", "Re: [x] ünï©ode ✓", "a\tb", strings.Repeat("S", 300), "=?utf-8?q?enc?="}

var people = []models.Addr{
	{Name: "", Address: "a@example.com"}, {Name: "From Person", Address: "from@person.com"},
	{Name: "Ünï Cödé", Address: "u@xn--e1afmkfd.example"}, {Name: "Comma, Quote\"", Address: "q@example.org"},
	{Name: "", Address: ""},
}

// genSOps draws a history.  weights: relative frequency per kind.
func genSOps(w *simrt.Choices, names []string, n int, maxBody int, kinds []string, avoid map[string]bool) []SOp {
	var ops []SOp
	issued := map[string]int{}
	tok := 0
	for i := 0; i < n; i++ {
		k := kinds[w.Choose(len(kinds))]
		mb := names[w.Choose(len(names))]
		op := SOp{Kind: k, Mailbox: mb}
		switch k {
		case "add":
			tok++
			m := &models.Msg{Mailbox: mb, Token: fmt.Sprintf("tok%d", tok)}
			m.From = people[w.Choose(len(people))]
			for j, nt := 0, w.Choose(4); j < nt; j++ {
				m.To = append(m.To, people[w.Choose(len(people))])
			}
			m.Subject = subjects[w.Choose(len(subjects))]
			if m.Subject == "hello" {
				m.Subject = "hello " + m.Token
			}
			sz := []int{0, 1, 17, 200, 4095, 4096, 4097, maxBody}[w.Choose(8)]
			if sz > maxBody {
				sz = maxBody
			}
			m.Body = genBody(w, m.Token, sz)
			m.Date = baseDate.Add(time.Duration(w.Choose(100000)) * time.Second).Add(time.Duration(w.Choose(1000)) * time.Nanosecond)
			op.Msg = m
			issued[mb]++
		case "addfail":
			m := &models.Msg{Mailbox: mb, Token: "failing", From: people[0], Subject: "never stored"}
			m.Body = genBody(w, "failing", []int{2, 300, 9000}[w.Choose(3)])
			m.Date = baseDate
			op.Msg = m
		case "get", "seen", "remove":
			if issued[mb] > 0 && (avoid["missing-id"] || w.Choose(4) != 0) {
				op.Ref = w.Choose(issued[mb])
			} else if avoid["missing-id"] {
				op.Kind = "list"
			} else {
				op.Ref = -1
				op.BadID = badIDs[w.Choose(len(badIDs))]
			}
		}
		ops = append(ops, op)
	}
	return ops
}

// storeRig drives one real store side by side with the model.
type storeRig struct {
	c     *Ctx
	cfg   StoreCfg
	store storage.Store
	eh    *extension.Host
	model *models.MailStore
	ids   map[string][]string // ids ever issued per mailbox, in issue order
	tag   string
	// ids issued by an earlier process (before the last restart) and not again since
	issuedBeforeRestart map[string]map[string]bool
}

func newStoreRig(c *Ctx, cfg StoreCfg) *storeRig {
	r := &storeRig{c: c, cfg: cfg, eh: extension.NewHost(), ids: map[string][]string{}, tag: cfg.Backend}
	if cfg.Backend == "file" {
		ensureFS(c.Sim)
	}
	st, err := openStore(cfg, r.eh)
	if err != nil {
		panic("harness: cannot open store: " + err.Error())
	}
	r.store = st
	r.model = models.NewMailStore(cfg.Cap, int64(cfg.MaxKB)*1024)
	return r
}

func (r *storeRig) idFor(o SOp) (id string, live bool) {
	if o.Ref < 0 || len(r.ids[o.Mailbox]) == 0 {
		// an id the generator made up; should the store ever have issued exactly that
		// id in this mailbox, it is an ordinary id
		return o.BadID, r.model.Get(o.Mailbox, o.BadID) != nil
	}
	l := r.ids[o.Mailbox]
	id = l[o.Ref%len(l)]
	return id, r.model.Get(o.Mailbox, id) != nil
}

// apply executes one op on the store and the model and compares (C07 contract).
// strictMissing: requests naming a message that does not exist must return ErrNotExist.
func (r *storeRig) apply(i int, o SOp) {
	c, tag := r.c, r.tag
	switch o.Kind {
	case "add":
		m := *o.Msg
		id, err := r.store.AddMessage(delivery(&m))
		if err != nil {
			c.Failf(tag+"/AddMessage->error", "op %d %s: %v", i, o, err)
			return
		}
		if id == "" {
			c.Failf(tag+"/AddMessage->empty-id", "op %d %s", i, o)
			return
		}
		if r.model.IDKnown(o.Mailbox, id) {
			if r.model.Get(o.Mailbox, id) == nil && r.issuedBeforeRestart[o.Mailbox][id] {
				// The id of a removed message that an earlier process had issued:
				// C07's "never reused" speaks of one running store, and C10 does not
				// promise it across a restart (the id counter is process state).
				// Counted, not demanded; a second issue by this process is.
				delete(r.issuedBeforeRestart[o.Mailbox], id)
				c.Stat("probe.id_of_removed_message_reissued_after_restart", 1)
			} else {
				c.Failf(tag+"/id-reused", "op %d %s: id %q was issued before in this mailbox", i, o, id)
				return
			}
		}
		m.ID = id
		r.ids[o.Mailbox] = append(r.ids[o.Mailbox], id)
		r.model.Add(&m)
		c.Logf("%s add %s -> %s", tag, o.Mailbox, id)
	case "addfail":
		// the source of the message fails half-way (the sender went away): the
		// delivery must be refused and must leave everything as it was
		m := *o.Msg
		d := delivery(&m)
		d.Reader = &failingReader{data: m.Body, left: len(m.Body) / 2}
		id, err := r.store.AddMessage(d)
		c.Logf("%s add %s from a failing source -> %q, %s", tag, o.Mailbox, id, errStr(err))
		if err == nil {
			c.Failf(tag+"/AddMessage(failing-source)->success", "op %d %s: returned id %q and no error", i, o, id)
			return
		}
		c.Stat("fault.message_source_fails_midway", 1)
		r.checkAll([]string{o.Mailbox})
	case "get":
		id, live := r.idFor(o)
		got, err := r.store.GetMessage(o.Mailbox, id)
		if live {
			if err != nil {
				c.Failf(tag+"/GetMessage(live)->error", "op %d %s id %q: %v", i, o, id, err)
			} else if d := cmpMsg(got, r.model.Get(o.Mailbox, id), true); d != "" {
				c.Failf(tag+"/GetMessage(live)-mismatch", "op %d %s id %q: %s", i, o, id, d)
			}
		} else if !isNotExist(err) {
			c.Failf(tag+"/GetMessage(missing)->("+nilness(got)+","+errKind(err)+")", "op %d %s id %q: want ErrNotExist, got message=%v err=%v", i, o, id, got != nil, err)
		}
	case "latest":
		got, err := r.store.GetMessage(o.Mailbox, "latest")
		want := r.model.Latest(o.Mailbox)
		if want != nil {
			if err != nil {
				c.Failf(tag+"/GetMessage(latest)->error", "op %d %s: %v", i, o, err)
			} else if d := cmpMsg(got, want, true); d != "" {
				c.Failf(tag+"/GetMessage(latest)-mismatch", "op %d %s: %s", i, o, d)
			}
		} else if !isNotExist(err) {
			c.Failf(tag+"/GetMessage(latest,empty)->("+nilness(got)+","+errKind(err)+")", "op %d %s: want ErrNotExist for an empty mailbox, got message=%v err=%v", i, o, got != nil, err)
		}
	case "list":
		got, err := r.store.GetMessages(o.Mailbox)
		if err != nil {
			c.Failf(tag+"/GetMessages->error", "op %d %s: %v", i, o, err)
		} else if d := cmpList(got, r.model.List(o.Mailbox), true); d != "" {
			c.Failf(tag+"/GetMessages-mismatch", "op %d %s: %s", i, o, d)
		}
	case "seen":
		id, live := r.idFor(o)
		err := r.store.MarkSeen(o.Mailbox, id)
		if live {
			if err != nil {
				c.Failf(tag+"/MarkSeen(live)->error", "op %d %s id %q: %v", i, o, id, err)
			}
			r.model.MarkSeen(o.Mailbox, id)
		} else if !isNotExist(err) {
			c.Failf(tag+"/MarkSeen(missing)->"+errKind(err), "op %d %s id %q: want ErrNotExist, got %v", i, o, id, err)
		}
	case "remove":
		id, live := r.idFor(o)
		err := r.store.RemoveMessage(o.Mailbox, id)
		if live {
			if err != nil {
				c.Failf(tag+"/RemoveMessage(live)->error", "op %d %s id %q: %v", i, o, id, err)
			}
			r.model.Remove(o.Mailbox, id)
		} else if !isNotExist(err) {
			c.Failf(tag+"/RemoveMessage(missing)->"+errKind(err), "op %d %s id %q: want ErrNotExist, got %v", i, o, id, err)
		}
	case "purge":
		if err := r.store.PurgeMessages(o.Mailbox); err != nil {
			c.Failf(tag+"/PurgeMessages->error", "op %d %s: %v", i, o, err)
		}
		r.model.Purge(o.Mailbox)
	case "visit":
		r.checkVisit(i, o)
	}
}

func nilness(m storage.Message) string {
	if m == nil {
		return "nil"
	}
	return "msg"
}

func errKind(err error) string {
	switch {
	case err == nil:
		return "nil"
	case isNotExist(err):
		return "ErrNotExist"
	}
	return "error"
}

func (r *storeRig) checkVisit(i int, o SOp) {
	c, tag := r.c, r.tag
	seen := map[string]int{}
	err := r.store.VisitMailboxes(func(ms []storage.Message) bool {
		if len(ms) == 0 {
			return true // an emptied mailbox may still be visited with no messages
		}
		name := ms[0].Mailbox()
		seen[name]++
		if d := cmpList(ms, r.model.List(name), false); d != "" {
			c.Failf(tag+"/VisitMailboxes-mismatch", "op %d visit: mailbox %q: %s", i, name, d)
		}
		return true
	})
	if err != nil {
		c.Failf(tag+"/VisitMailboxes->error", "op %d visit: %v", i, err)
		return
	}
	for _, name := range r.model.NonEmpty() {
		if seen[name] != 1 {
			c.Failf(tag+"/VisitMailboxes-coverage", "op %d visit: mailbox %q visited %d times, want 1 (visited: %v)", i, name, seen[name], seen)
		}
	}
	for _, name := range sortedKeysI(seen) {
		n := seen[name]
		if len(r.model.List(name)) == 0 {
			c.Failf(tag+"/VisitMailboxes-phantom", "op %d visit: mailbox %q visited (%d) but the model has no messages there", i, name, n)
		}
	}
}

// checkAll compares every mailbox the model knows (end-of-history sweep).
func (r *storeRig) checkAll(names []string) {
	for _, n := range names {
		got, err := r.store.GetMessages(n)
		if err != nil {
			r.c.Failf(r.tag+"/GetMessages->error", "final sweep %q: %v", n, err)
		} else if d := cmpList(got, r.model.List(n), true); d != "" {
			r.c.Failf(r.tag+"/GetMessages-mismatch", "final sweep %q: %s", n, d)
		}
	}
	r.checkVisit(-1, SOp{Kind: "visit"})
}

// ---- C07 ----

var c07Kinds = []string{"add", "add", "add", "add", "get", "get", "latest", "list", "seen", "seen", "remove", "remove", "purge", "visit", "addfail"}

func init() {
	register(&Prop{
		ID:    "C07",
		Level: "exploration",
		Gen: func(w *simrt.Choices, tier string, avoid map[string]bool) Case {
			h := &storeHistory{Cfgs: []StoreCfg{{Backend: "mem"}, {Backend: "file"}}}
			h.Names = pickNames(w, 2+w.Choose(4), true)
			n := 5 + w.Choose(56)
			maxBody := 8192
			h.Ops = genSOps(w, h.Names, n, maxBody, c07Kinds, avoid)
			return h
		},
		Run: func(c *Ctx, cs Case) {
			h := cs.(*storeHistory)
			rigs := []*storeRig{newStoreRig(c, h.Cfgs[0]), newStoreRig(c, h.Cfgs[1])}
			for i, o := range h.Ops {
				for _, r := range rigs {
					r.apply(i, o)
				}
				if c.Failed() {
					return
				}
				c.Distinct("model_states", rigs[0].model.Hash())
			}
			for _, r := range rigs {
				r.checkAll(h.Names)
			}
			// observational equivalence: both back-ends matched the same model
			// op by op; their models must be identical modulo id text.
			if a, b := rigs[0].model.Hash(), rigs[1].model.Hash(); a != b {
				c.Failf("backends-diverge", "mem and file models differ after the same history")
			}
			c.NonTrivial(rigs[0].model.Hash(), len(h.Ops))
		},
		// clock jumps are on (dates are data here): the simulated-time budget must
		// cover a long history's worth of jumps, nothing in a store waits for time
		Config:            func(cs Case) simrt.Config { return simrt.Config{MaxSimTime: 100000 * time.Hour} },
		BudgetIsViolation: true,
		QuickRuns:         6000,
		ThoroughRuns:      150000,
		Rule: "seeded histories of 5-60 store operations (add/get/latest/list/mark-seen/remove/purge/visit) over 2-5 mailboxes " +
			"(plain, hash-colliding, special-character names; missing and never-issued ids) executed on the real memory store and " +
			"the real file store (on the simulated disk) side by side with the ordered-mailbox model; a run is non-trivial and " +
			"distinct by the hash of its final model state and history length",
		Real: []string{"pkg/storage/mem", "pkg/storage/file", "pkg/storage (HashLock)", "pkg/extension brokers"},
		Stub: []string{"disk (simfs in-memory tree)", "goroutine scheduler (simrt)", "sync primitives (simsync)"},
		Assumptions: []string{
			"sequential histories only (concurrency is C09)",
			"file-store ids are treated as opaque text",
		},
	})
}

// failingReader yields left bytes of data and then an error.
type failingReader struct {
	data []byte
	left int
}

func (f *failingReader) Read(p []byte) (int, error) {
	if f.left <= 0 {
		return 0, fmt.Errorf("connection reset by peer (injected)")
	}
	n := copy(p, f.data[:f.left])
	f.data, f.left = f.data[n:], f.left-n
	return n, nil
}
