package harness

import (
	"context"
	"fmt"
	"sort"
	"strings"
	"time"

	"github.com/inbucket/inbucket/v3/pkg/config"
	"github.com/inbucket/inbucket/v3/pkg/extension"
	"github.com/inbucket/inbucket/v3/pkg/extension/event"
	"github.com/inbucket/inbucket/v3/pkg/message"
	"github.com/inbucket/inbucket/v3/pkg/policy"
	"github.com/inbucket/inbucket/v3/pkg/storage"
	"github.com/inbucket/inbucket/v3/vsim/simrt"
)

// C16: each stored and each removed message produces exactly one event, in
// causal order; a listener is never invoked for the next event before its
// previous invocation has finished.

type c16Op struct {
	Kind  string   // deliver remove purge retention
	Rcpts []string // deliver: mailbox names (local naming: address = name@example.com)
	Size  int
	Box   string
	Ref   int
	Old   bool // retention: advance the clock so earlier mail expires
}

func (o c16Op) String() string {
	switch o.Kind {
	case "deliver":
		return fmt.Sprintf("deliver to %v (%d bytes)", o.Rcpts, o.Size)
	case "remove":
		return fmt.Sprintf("remove %q #%d", o.Box, o.Ref)
	case "purge":
		return fmt.Sprintf("purge %q", o.Box)
	}
	return fmt.Sprintf("retention scan (advance clock: %v)", o.Old)
}

type c16Case struct {
	Cfg   StoreCfg
	Names []string
	Ops   []c16Op
	// Pairs: operations 2i and 2i+1 run concurrently (two clients).  Only the
	// conservation and non-overlap clauses are judged then; the order clauses
	// of the statement are about what a listener sees of sequential operations.
	Pairs bool
	// Fault (file back-end, sequential histories): a disk fault during operation number Target
	Fault fsFault
	// Volume: 300 deliveries to one mailbox and then its purge while one observer is stuck in its
	// first invocation: hundreds of events wait for that listener
	Volume bool
}

func (k *c16Case) Describe() []string {
	l := []string{"store " + k.Cfg.String(), "mailboxes " + strings.Join(k.Names, " | ")}
	if k.Pairs {
		l = append(l, "operations 2i and 2i+1 run concurrently")
	}
	if k.Fault.On {
		l = append(l, k.Fault.String())
	}
	if k.Volume {
		return append(l, "300 x deliver to [alice] (60 bytes), then purge \"alice\", while observer obsA is held in its first invocation")
	}
	for i, o := range k.Ops {
		l = append(l, fmt.Sprintf("%3d %s", i, o))
	}
	return l
}

type obsEvent struct {
	Kind       string // stored | deleted
	Box, ID    string
	Size       int64
	Start, End int64
}

type observer struct {
	name    string
	events  []obsEvent
	open    int // invocations in progress
	maxOpen int
}

func genC16(w *simrt.Choices, tier string, avoid map[string]bool) Case {
	k := &c16Case{Cfg: genLimitedCfg(w)}
	if w.Choose(4) == 0 {
		k.Cfg.Cap, k.Cfg.MaxKB = 0, 0
	}
	if avoid["mem-cap"] && k.Cfg.Backend == "mem" {
		k.Cfg.Cap = 0
	}
	k.Names = []string{"alice", "bob", "carol"}[:1+w.Choose(3)]
	k.Pairs = w.Choose(3) == 1
	n := 3 + w.Choose(14)
	limit := k.Cfg.MaxKB * 1024
	if limit == 0 {
		limit = 2048
	}
	for i := 0; i < n; i++ {
		var o c16Op
		switch w.Choose(8) {
		case 0, 1, 2, 3:
			o.Kind = "deliver"
			nr := 1 + w.Choose(len(k.Names))
			for _, j := range w.Perm(len(k.Names))[:nr] {
				o.Rcpts = append(o.Rcpts, k.Names[j])
			}
			o.Size = []int{60, 200, limit / 3, limit / 2, limit + 100}[w.Choose(5)]
			if avoid["oversize"] && o.Size > limit {
				o.Size = limit / 2
			}
		case 4, 5:
			o.Kind, o.Box, o.Ref = "remove", k.Names[w.Choose(len(k.Names))], w.Choose(5)
		case 6:
			o.Kind, o.Box = "purge", k.Names[w.Choose(len(k.Names))]
		default:
			o.Kind, o.Old = "retention", w.Choose(2) == 1
		}
		if k.Pairs && i%2 == 1 && o.Kind == "remove" && k.Ops[i-1].Kind == "remove" && w.Choose(2) == 0 {
			o.Box, o.Ref = k.Ops[i-1].Box, k.Ops[i-1].Ref // both clients delete the same message
		}
		k.Ops = append(k.Ops, o)
	}
	if k.Cfg.Backend == "file" && !k.Pairs {
		k.Fault = genFSFault(w, len(k.Ops))
	}
	if w.Choose(40) == 0 {
		k.Volume, k.Pairs, k.Fault = true, false, fsFault{}
		k.Cfg.Cap, k.Cfg.MaxKB = 0, 0
		k.Names = []string{"alice"}
		k.Ops = nil
		for i := 0; i < 300; i++ {
			k.Ops = append(k.Ops, c16Op{Kind: "deliver", Rcpts: []string{"alice"}, Size: 60})
		}
		k.Ops = append(k.Ops, c16Op{Kind: "purge", Box: "alice"})
	}
	return k
}

func runC16(c *Ctx, cs Case) {
	k := cs.(*c16Case)
	if k.Cfg.Backend == "file" {
		ensureFS(c.Sim)
	}
	eh := extension.NewHost()
	st, err := openStore(k.Cfg, eh)
	if err != nil {
		panic(err)
	}
	root := &config.Root{MailboxNaming: config.LocalNaming}
	root.SMTP.DefaultAccept, root.SMTP.DefaultStore = true, true
	ap := &policy.Addressing{Config: root}
	mgr := &message.StoreManager{AddrPolicy: ap, Store: st, ExtHost: eh}

	var seq int64
	stamp := func() int64 { seq++; return seq }
	gateOpen := false
	var gated *simrt.Task
	mkObs := func(name string) *observer {
		o := &observer{name: name}
		handler := func(kind string) func(event.MessageMetadata) {
			return func(m event.MessageMetadata) {
				t := simrt.Current()
				o.open++
				if o.open > o.maxOpen {
					o.maxOpen = o.open
				}
				ev := obsEvent{Kind: kind, Box: m.Mailbox, ID: m.ID, Size: m.Size, Start: stamp()}
				if k.Volume && name == "obsA" && !gateOpen {
					// held until everything has been emitted: the events pile up behind this call
					gated = t
					t.Block("observer held")
					gated = nil
				}
				// a listener takes a moment: two scheduling points inside
				t.Yield("observer " + name)
				t.Yield("observer " + name)
				ev.End = stamp()
				o.open--
				o.events = append(o.events, ev)
				c.Logf("%s %s %s/%s [%d,%d]", name, kind, m.Mailbox, m.ID, ev.Start, ev.End)
			}
		}
		eh.Events.AfterMessageStored.AddListener(name, handler("stored"))
		eh.Events.AfterMessageDeleted.AddListener(name, handler("deleted"))
		return o
	}
	obs := []*observer{mkObs("obsA"), mkObs("obsB")}

	// ids ever seen in a listing, per mailbox, in first-seen (arrival) order
	listed := map[string][]string{}
	known := map[string]bool{}
	sweep := func() {
		for _, n := range k.Names {
			ms, err := st.GetMessages(n)
			if err != nil {
				c.Failf(tagOf(k.Cfg)+"/GetMessages->error", "listing %q: %v", n, err)
				return
			}
			for _, m := range ms {
				key := n + "/" + m.ID()
				if !known[key] {
					known[key] = true
					listed[n] = append(listed[n], m.ID())
				}
			}
		}
	}
	tok := 0
	type failedDelivery struct {
		op    int
		token string
		rcpts []string
	}
	var failedDeliveries []failedDelivery
	firedAt := map[int]bool{}
	faulted := func(i int) bool { return firedAt[i] }
	doOp1 := func(i int, o c16Op, mytok int) {}
	doOp := func(i int, o c16Op, mytok int) {
		if k.Fault.On && k.Fault.Target == i {
			before := fsFired(c.Sim)
			disarm := k.Fault.arm(c.Sim)
			// whether the fault fired is only known afterwards: errors of this operation are judged then
			firedAt[i] = true
			doOp1(i, o, mytok)
			disarm()
			if fsFired(c.Sim) == before {
				firedAt[i] = false
			}
			return
		}
		doOp1(i, o, mytok)
	}
	doOp1 = func(i int, o c16Op, mytok int) {
		switch o.Kind {
		case "deliver":
			var rcpts []*policy.Recipient
			for _, n := range o.Rcpts {
				r, err := ap.NewRecipient(n + "@example.com")
				if err != nil {
					panic(err)
				}
				rcpts = append(rcpts, r)
			}
			from, _ := ap.ParseOrigin("sender@example.org")
			body := bodyFromSeed(uint64(mytok), fmt.Sprintf("tok%d", mytok), o.Size)
			if err := mgr.Deliver(from, rcpts, "Received: from sim ([192.0.2.7]) by inbucket\r\n", body); err != nil {
				if faulted(i) {
					c.Stat("probe.operation_failed_after_disk_fault", 1)
					failedDeliveries = append(failedDeliveries, failedDelivery{i, fmt.Sprintf("tok%d", mytok), o.Rcpts})
					return
				}
				c.Failf(tagOf(k.Cfg)+"/Deliver->error", "op %d %s: %v", i, o, err)
				return
			}
		case "remove":
			if l := listed[o.Box]; len(l) > 0 {
				_ = st.RemoveMessage(o.Box, l[o.Ref%len(l)])
			}
		case "purge":
			if err := st.PurgeMessages(o.Box); err != nil && !faulted(i) {
				c.Failf(tagOf(k.Cfg)+"/PurgeMessages->error", "op %d %s: %v", i, o, err)
			}
		case "retention":
			if o.Old {
				simrt.Sleep(2 * time.Hour)
			}
			rs := storage.NewRetentionScanner(config.Storage{RetentionPeriod: time.Hour, RetentionSleep: 0}, st)
			if err := rs.DoScan(context.Background()); err != nil && !faulted(i) {
				c.Failf(tagOf(k.Cfg)+"/DoScan->error", "op %d: %v", i, err)
			}
		}
	}
	for i := 0; i < len(k.Ops); i++ {
		if k.Pairs && i+1 < len(k.Ops) {
			a, b := i, i+1
			tok += 2
			ta, tb := tok-1, tok
			t1 := simrt.Go("clientA", func() { doOp(a, k.Ops[a], ta) })
			t2 := simrt.Go("clientB", func() { doOp(b, k.Ops[b], tb) })
			c.Main.Join(t1)
			c.Main.Join(t2)
			c.Stat("probe.concurrent_operation_pairs", 1)
			i++
		} else {
			tok++
			doOp(i, k.Ops[i], tok)
		}
		sweep()
		if c.Failed() {
			return
		}
	}
	if k.Volume {
		c.Main.Quiesce()
		gateOpen = true
		if gated != nil {
			c.Sim.MakeReady(gated)
		}
		c.Stat("probe.volume_runs_with_a_held_listener", 1)
	}
	// quiescence: every event goroutine has finished
	c.Main.Quiesce()
	sweep()
	// a delivery that reported failure has not reached every one of its recipients
	for _, fd := range failedDeliveries {
		have := 0
		for _, n := range fd.rcpts {
			ms, _ := st.GetMessages(n)
			for _, m := range ms {
				if m.Subject() == fd.token {
					have++
					break
				}
			}
		}
		if have == len(fd.rcpts) {
			c.Failf(tagOf(k.Cfg)+"/failed-delivery-fully-stored", "op %d: Deliver to %v returned an error after the injected disk fault, but every recipient holds the message (%s): a sender told 'failed' sends it again", fd.op, fd.rcpts, fd.token)
		}
	}
	live := map[string]bool{}
	for _, n := range k.Names {
		ms, _ := st.GetMessages(n)
		for _, m := range ms {
			live[n+"/"+m.ID()] = true
		}
	}
	tag := tagOf(k.Cfg)
	overlapSeen := false
	for _, o := range obs {
		stored := map[string]int{}
		deleted := map[string]int{}
		storedAt := map[string]int64{}
		for _, e := range o.events {
			key := e.Box + "/" + e.ID
			if e.Kind == "stored" {
				stored[key]++
				storedAt[key] = e.Start
			} else {
				deleted[key]++
			}
		}
		// exactly-once conservation
		for _, key := range sortedKeys(known) {
			if stored[key] != 1 {
				c.Failf(tag+"/stored-events!=1", "%s saw %d 'stored' events for %s (want exactly 1)", o.name, stored[key], key)
			}
			want := 0
			if !live[key] {
				want = 1
			}
			if deleted[key] != want {
				what := "deleted-event-missing"
				if deleted[key] > want {
					what = "deleted-event-surplus"
				}
				c.Failf(tag+"/"+what, "%s saw %d 'deleted' events for %s (want %d; still listed=%v; removers in this history: %s)", o.name, deleted[key], key, want, live[key], removalKinds(k))
			}
		}
		for _, key := range sortedKeysI(stored) {
			n := stored[key]
			if !known[key] {
				// entered and left between two listings (evicted at once): one of each
				if n != 1 || deleted[key] != 1 {
					c.Failf(tag+"/unlisted-id-events", "%s saw %d stored / %d deleted events for %s, which never appeared in a listing", o.name, n, deleted[key], key)
				}
			}
		}
		for _, key := range sortedKeysI(deleted) {
			if stored[key] == 0 && !known[key] {
				c.Failf(tag+"/deleted-event-for-unknown-id", "%s saw a 'deleted' event for %s, which was never stored", o.name, key)
			}
		}
		// invocations never overlap
		if o.maxOpen > 1 {
			overlapSeen = true
			c.Failf("listener-invocations-overlap", "%s was invoked again while a previous invocation was still running (%d at once)", o.name, o.maxOpen)
		}
		if k.Pairs {
			continue // the order clauses are about sequential operations
		}
		// stored before deleted
		for _, e := range o.events {
			key := e.Box + "/" + e.ID
			if e.Kind == "deleted" {
				if sa, ok := storedAt[key]; ok && sa > e.Start {
					cls := "deleted-before-stored"
					if lim := int64(k.Cfg.MaxKB) * 1024; lim > 0 && e.Size > lim {
						// the message alone exceeds the size limit: it is evicted inside
						// AddMessage, before Deliver gets to emit 'stored'
						cls = "deleted-before-stored(message larger than the size limit)"
					}
					c.Failf(cls, "%s was told %s was deleted (at %d) before it was told it was stored (at %d)", o.name, key, e.Start, sa)
				}
			}
		}
		// stored events of one mailbox arrive in arrival (listing) order
		for _, n := range k.Names {
			pos := map[string]int{}
			for i, id := range listed[n] {
				pos[id] = i
			}
			last := -1
			var evs []obsEvent
			for _, e := range o.events {
				if e.Kind == "stored" && e.Box == n {
					evs = append(evs, e)
				}
			}
			// order by start stamp
			for i := 1; i < len(evs); i++ {
				for j := i; j > 0 && evs[j].Start < evs[j-1].Start; j-- {
					evs[j], evs[j-1] = evs[j-1], evs[j]
				}
			}
			for _, e := range evs {
				p, ok := pos[e.ID]
				if !ok {
					continue
				}
				if p < last {
					c.Failf("stored-events-out-of-arrival-order", "%s: 'stored' events of mailbox %q arrived out of arrival order (id %s after a later one)", o.name, n, e.ID)
				}
				last = p
			}
		}
	}
	_ = overlapSeen
	nEv := 0
	for _, o := range obs {
		nEv += len(o.events)
	}
	c.Stat("probe.events_observed", int64(nEv))
	if nEv > 2 {
		c.NonTrivial(len(k.Ops), k.Cfg.String(), c.Sim.Steps)
	}
}

func tagOf(cfg StoreCfg) string {
	t := cfg.Backend
	if cfg.Cap > 0 {
		t += "+cap"
	}
	if cfg.MaxKB > 0 {
		t += "+maxkb"
	}
	return t
}

func removalKinds(k *c16Case) string {
	set := map[string]bool{}
	for _, o := range k.Ops {
		if o.Kind != "deliver" {
			set[o.Kind] = true
		}
	}
	var l []string
	for _, n := range []string{"remove", "purge", "retention"} {
		if set[n] {
			l = append(l, n)
		}
	}
	return strings.Join(l, ",")
}

func init() {
	register(&Prop{
		ID:                "C16",
		Level:             "exploration",
		Gen:               genC16,
		Run:               runC16,
		Config:            func(cs Case) simrt.Config { return simrt.Config{NoJumps: true, MaxSteps: 100000} },
		BudgetIsViolation: true,
		QuickRuns:         15000,
		ThoroughRuns:      300000,
		Rule: "seeded histories of 3-16 operations (StoreManager.Deliver to 1-3 mailboxes, remove, purge, real retention scan) on the real " +
			"memory store (cap x maxkb) and file store (cap); two observers are registered through the public extension host on " +
			"AfterMessageStored/AfterMessageDeleted, each invocation contains scheduling points, and the seed decides when every event " +
			"goroutine runs relative to the operations that follow. At quiescence: exactly one stored event per id that ever appeared in a " +
			"listing, exactly one deleted event iff it is no longer listed (whatever removed it), none for unknown ids, no overlapping " +
			"invocations per observer, stored before deleted, stored events of a mailbox in arrival order. In a third of the runs two clients " +
			"issue the operations pairwise concurrently (sometimes deleting the same message); the conservation and non-overlap clauses are " +
			"judged there, the order clauses only for sequential operations. non-trivial = >2 events observed",
		Real:        []string{"pkg/extension (AsyncEventBroker)", "pkg/message StoreManager.Deliver", "pkg/storage/mem", "pkg/storage/file", "RetentionScanner.DoScan"},
		Stub:        []string{"scheduler (simrt)", "disk (simfs)", "clock (synctest)"},
		Assumptions: []string{"one client issues the operations; the asynchronous dimension is the event dispatch"},
	})
}

func sortedKeys(m map[string]bool) []string {
	l := make([]string, 0, len(m))
	for k := range m {
		l = append(l, k)
	}
	sort.Strings(l)
	return l
}

func sortedKeysI(m map[string]int) []string {
	l := make([]string, 0, len(m))
	for k := range m {
		l = append(l, k)
	}
	sort.Strings(l)
	return l
}
