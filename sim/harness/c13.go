package harness

import (
	"fmt"
	"hash/fnv"
	"regexp"
	"strconv"
	"strings"
	"time"

	"github.com/inbucket/inbucket/v3/pkg/config"
	"github.com/inbucket/inbucket/v3/pkg/extension"
	"github.com/inbucket/inbucket/v3/pkg/storage"
	"github.com/inbucket/inbucket/v3/vsim/models"
	"github.com/inbucket/inbucket/v3/vsim/simfs"
	"github.com/inbucket/inbucket/v3/vsim/simnet"
	"github.com/inbucket/inbucket/v3/vsim/simrt"
)

// C13: a POP3 session is a stable snapshot whose deletions commit only on QUIT.

type c13Msg struct {
	Box  int // index into Names
	Size int
	Seed uint64
}

type c13Cmd struct {
	Line  string        // command line without terminator
	Term  string        // "\r\n" or "\n"
	Pause time.Duration // client idles this long before sending
}

type c13Other struct {
	Kind  string // add | remove
	Box   int    // 0 = the mailbox of the session, 1 = another mailbox
	Size  int
	Seed  uint64
	Ref   int // remove: index into the ids known for the mailbox
	Delay time.Duration
}

type c13Case struct {
	Backend string
	Names   []string // 0 primary, 1 secondary, 2 never filled
	Net     simnet.Profile
	Timeout time.Duration
	Prefill []c13Msg
	Script  []c13Cmd
	End     string // quit close abort stall close-unread abort-unread stall-unread partial-quit
	Other   []c13Other
	// Racer (file back-end): removals by another interface that start at the
	// moment the server makes the first file-system step of committing QUIT.
	Racer []c13Other
	// MidLogin: what another interface does to the mailbox between the accepted USER
	// and the PASS that follows it ("after login" means after PASS)
	MidLogin []c13Other
}

func (k *c13Case) Describe() []string {
	l := []string{fmt.Sprintf("store=%s mailboxes=%q pop3-timeout=%v %s end=%s", k.Backend, k.Names, k.Timeout, profileString(k.Net), k.End)}
	for i, m := range k.Prefill {
		l = append(l, fmt.Sprintf("prefill %d mailbox=%q size=%d", i, k.Names[m.Box], m.Size))
	}
	for i, s := range k.Script {
		l = append(l, fmt.Sprintf("cmd %d pause=%v %q", i, s.Pause, clipStr(s.Line, 80)+s.Term))
	}
	for i, o := range k.MidLogin {
		l = append(l, fmt.Sprintf("between USER and PASS %d: %s size=%d ref=%d", i, o.Kind, o.Size, o.Ref))
	}
	for i, o := range k.Racer {
		l = append(l, fmt.Sprintf("racer %d: when QUIT starts to commit, remove from session mailbox ref=%d", i, o.Ref))
	}
	for i, o := range k.Other {
		switch o.Kind {
		case "add":
			l = append(l, fmt.Sprintf("other %d after %v add to %s size=%d", i, o.Delay, []string{"session mailbox", "other mailbox"}[o.Box], o.Size))
		default:
			l = append(l, fmt.Sprintf("other %d after %v remove from %s ref=%d", i, o.Delay, []string{"session mailbox", "other mailbox"}[o.Box], o.Ref))
		}
	}
	return l
}

var c13Sizes = []int{40, 300, 1100, 0, 1, 61, 5000, 20000}
var c13SafeOdd = []string{"a.b-c_d", "user@example.com", "x-1_y"}
var c13Huge = []string{"2147483648", "4294967297", "99999999999999999999", "-2147483649"}
var c13NonNum = []string{"abc", "1x", "", "1.0", "0x1", "+1", "01", "\xff"}
var c13NonNumDele = []string{"abc", "1x", "", "1.0", "0x1", "\xff"}
var c13TopLines = []string{"0", "1", "5", "1000000", "-1", "x", ""}
var c13ArgForms = []string{"STAT 1", "LIST 1 2", "UIDL 1 2", "DELE", "DELE 1 2", "RETR", "RETR 1 2", "TOP 1", "TOP", "TOP 1 2 3",
	"NOOP x", "RSET x", "LIST  1", "DELE  1", "UIDL  ", "STAT  "}
var c13Garbage = []string{"", " ", "XYZZY", "STATX", "HELO there", "\x00\x01\x02", "STAT\tLIST", "DELE\t1", ".", "+OK", "-ERR no",
	"long-noop", "long-word", "long-list"}

func c13Cased(w *simrt.Choices, verb string) string {
	switch w.Choose(10) {
	case 8:
		return strings.ToLower(verb)
	case 9:
		return verb[:1] + strings.ToLower(verb[1:])
	}
	return verb
}

// c13Num draws a message-number argument; n is the number of messages the
// mailbox is expected to hold at login.
func c13Num(w *simrt.Choices, n int, dele bool) string {
	switch w.Choose(10) {
	case 5:
		return "0"
	case 6:
		return []string{"-1", "-" + strconv.Itoa(n)}[w.Choose(2)]
	case 7:
		return strconv.Itoa(n + 1)
	case 8:
		return c13Huge[w.Choose(len(c13Huge))]
	case 9:
		if dele {
			return c13NonNumDele[w.Choose(len(c13NonNumDele))]
		}
		return c13NonNum[w.Choose(len(c13NonNum))]
	}
	if n <= 0 {
		return "1"
	}
	return strconv.Itoa(1 + w.Choose(n))
}

// c13GarbageLine draws a line no command grammar produces.  slow: the
// simulated network carries only a few dozen bytes per second (small buffer,
// seconds of delay per segment); a reply that echoes the line must still fit
// into one idle timeout, otherwise the server is right to give up on the write.
func c13GarbageLine(w *simrt.Choices, slow bool) string {
	g := c13Garbage[w.Choose(len(c13Garbage))]
	switch g {
	case "long-noop":
		return "NOOP " + strings.Repeat("x", 5000)
	case "long-word":
		if slow {
			return strings.Repeat("A", 600)
		}
		return strings.Repeat("A", 70000)
	case "long-list":
		return "LIST " + strings.Repeat("9", 3000)
	}
	return g
}

func genC13(w *simrt.Choices, tier string, avoid map[string]bool) Case {
	k := &c13Case{}
	k.Backend = []string{"mem", "file"}[w.Choose(2)]
	k.Names = pickNames(w, 3, false)
	if w.Choose(6) == 5 {
		k.Names[0] = c13SafeOdd[w.Choose(len(c13SafeOdd))]
	}
	k.Net = netProfile(w)
	k.Timeout = []time.Duration{30 * time.Second, 60 * time.Second, 120 * time.Second}[w.Choose(3)]
	slow := k.Net.MaxDelay >= time.Second && k.Net.BufCap > 0 && k.Net.BufCap <= 1024
	cnt := []int{0, 0, 0}
	for i, n := 0, w.Choose(9); i < n; i++ {
		m := c13Msg{Size: c13Sizes[w.Choose(len(c13Sizes))], Seed: uint64(w.Choose(1 << 16))}
		if w.Choose(5) == 4 {
			m.Box = 1
		}
		cnt[m.Box]++
		k.Prefill = append(k.Prefill, m)
	}
	k.End = []string{"quit", "quit", "quit", "quit", "close", "abort", "stall", "close-unread", "abort-unread", "stall-unread", "partial-quit"}[w.Choose(11)]

	logged, userSet, quit := false, false, false
	curN := cnt[0]
	userN := cnt[0]
	add := func(line string) {
		c := c13Cmd{Line: line, Term: "\r\n"}
		if w.Choose(10) == 9 {
			c.Term = "\n"
		}
		c.Pause = []time.Duration{0, 0, 0, 0, 0, 300 * time.Millisecond, k.Timeout / 2}[w.Choose(7)]
		k.Script = append(k.Script, c)
	}
	target := func() (string, int) {
		b := []int{0, 0, 0, 0, 1, 2}[w.Choose(6)]
		return k.Names[b], cnt[b]
	}
	authCmd := func() {
		switch w.Choose(6) {
		case 0:
			t, n := target()
			add(c13Cased(w, "USER") + " " + t)
			userSet, userN = true, n
		case 1:
			add(c13Cased(w, "PASS") + []string{" secret", "", " a b c"}[w.Choose(3)])
			if userSet && !logged {
				logged, curN = true, userN
			}
		case 2:
			t, n := target()
			add(c13Cased(w, "APOP") + " " + t + " c4c9334bac560ecc979e58001b3e22fb")
			if !logged {
				logged, curN = true, n
			}
		case 3:
			add("USER")
		case 4:
			t, _ := target()
			add("APOP " + t)
		case 5:
			add("APOP")
		}
	}
	txnCmd := func() {
		switch w.Choose(24) {
		case 0, 12:
			add(c13Cased(w, "STAT"))
		case 1, 13:
			add(c13Cased(w, "LIST"))
		case 2, 14, 22:
			add(c13Cased(w, "UIDL"))
		case 3, 4, 5, 20:
			add(c13Cased(w, "DELE") + " " + c13Num(w, curN, true))
		case 6:
			add(c13Cased(w, "LIST") + " " + c13Num(w, curN, false))
		case 7:
			add(c13Cased(w, "UIDL") + " " + c13Num(w, curN, false))
		case 8:
			add(c13Cased(w, "RETR") + " " + c13Num(w, curN, false))
		case 9:
			add(c13Cased(w, "TOP") + " " + c13Num(w, curN, false) + " " + c13TopLines[w.Choose(len(c13TopLines))])
		case 10, 23:
			add(c13Cased(w, "RSET"))
		case 11:
			add(c13Cased(w, "NOOP"))
		case 15:
			add(c13Cased(w, "CAPA"))
		case 16:
			add(c13ArgForms[w.Choose(len(c13ArgForms))])
		case 17:
			authCmd()
		case 18:
			add(c13GarbageLine(w, slow))
		case 19:
			if n := len(k.Script); n > 0 {
				add(k.Script[n-1].Line) // verbatim repetition
			} else {
				add("NOOP")
			}
		case 21:
			add(c13Cased(w, "QUIT") + []string{"", "", "", " now"}[w.Choose(4)])
			quit = true
		}
	}
	for i, n := 0, w.Choose(15); i < n && !quit; i++ {
		if logged {
			txnCmd()
			continue
		}
		switch w.Choose(12) {
		case 0, 1, 2, 3:
			t, n := target()
			add(c13Cased(w, "USER") + " " + t)
			add(c13Cased(w, "PASS") + " secret")
			logged, userSet, userN, curN = true, true, n, n
		case 4:
			t, n := target()
			add(c13Cased(w, "APOP") + " " + t + " c4c9334bac560ecc979e58001b3e22fb")
			logged, curN = true, n
		case 5, 6, 8:
			authCmd()
		case 7:
			txnCmd()
		case 9:
			add(c13GarbageLine(w, slow))
		case 10:
			add([]string{"CAPA", "NOOP"}[w.Choose(2)])
		case 11:
			add(c13Cased(w, "QUIT"))
			quit = true
		}
	}
	switch k.End {
	case "quit":
		if !quit {
			add(c13Cased(w, "QUIT"))
		}
	case "close-unread", "abort-unread", "stall-unread":
		if !quit && w.Choose(3) == 0 {
			add("QUIT")
		}
	}
	for i, n := 0, w.Choose(7); i < n; i++ {
		o := c13Other{Kind: []string{"add", "remove"}[w.Choose(2)]}
		if w.Choose(6) == 5 {
			o.Box = 1
		}
		o.Delay = []time.Duration{0, 0, 10 * time.Millisecond, time.Second, 5 * time.Second, k.Timeout / 2}[w.Choose(6)]
		o.Size = c13Sizes[w.Choose(3)]
		o.Seed = uint64(w.Choose(1 << 16))
		o.Ref = w.Choose(12)
		k.Other = append(k.Other, o)
	}
	if k.Backend == "file" && w.Choose(2) == 0 {
		for i, n := 0, 1+w.Choose(2); i < n; i++ {
			k.Racer = append(k.Racer, c13Other{Kind: "remove", Ref: w.Choose(12)})
		}
	}
	if w.Choose(4) == 0 {
		for i, n := 0, 1+w.Choose(2); i < n; i++ {
			k.MidLogin = append(k.MidLogin, c13Other{Kind: []string{"add", "remove"}[w.Choose(2)], Size: c13Sizes[w.Choose(3)], Seed: uint64(w.Choose(1 << 16)), Ref: w.Choose(12)})
		}
	}
	// avoid switches of known findings (applied after every choice was drawn, so
	// the rest of the case is the same with and without the switch)
	if avoid["stall-unread"] && k.End == "stall-unread" {
		k.End = "stall"
	}
	if avoid["retr-removed"] && k.Backend == "file" {
		removes := false
		for _, o := range k.Other {
			removes = removes || o.Kind == "remove"
		}
		if removes {
			for i := range k.Script {
				if v, _ := popVerb(k.Script[i].Line); v == "RETR" || v == "TOP" {
					k.Script[i].Line = "NOOP"
				}
			}
		}
	}
	return k
}

// ---- run ----

type c13Entry struct {
	Token, ID string
	Size      int64
}

type c13Run struct {
	c   *Ctx
	k   *c13Case
	st  storage.Store
	tok int
	// every message ever stored, per mailbox, in order of the successful adds,
	// and the ids the other task removed (RemoveMessage returned nil)
	all            map[string][]c13Entry
	removedByOther map[string]bool

	// session as the replies define it
	state               string // auth | txn | end
	user                string
	userKnown           bool
	preOK               bool // a listing of the candidate mailbox was taken before PASS/APOP
	preBox              string
	preSnap             []models.POP3Msg
	mailbox             string
	model               *models.POP3State
	unsure              bool // the model no longer knows mailbox or marks: nothing is asserted
	ending              string
	ambiguous           bool // QUIT was sent in TRANSACTION state but its reply was not read
	quitUnreadCommitted bool // ... and the connection was not reset: the server did receive it
	marked              map[string]bool

	open         bool // connection established and not yet ended by the client
	other        *simrt.Task
	racer        *simrt.Task
	midDone      bool
	quitSent     bool // the client has sent QUIT in TRANSACTION state
	commitBegun  bool // ... and the server has made a file-system step since
	extChanges   int  // mutations of the session mailbox by the other task so far
	extDuring    int  // ... while the session was open
	listings     int
	listingsExt  int // listings verified after >=1 external change
	deles        int
	clientEnd    time.Time
	clientEnded  bool
	scriptDigest uint64
}

func (r *c13Run) key(box, id string) string { return box + "\x00" + id }

func (r *c13Run) addMsg(who, box string, size int, seed uint64) {
	r.tok++
	token := fmt.Sprintf("tok%d", r.tok)
	m := &models.Msg{Mailbox: box, Token: token, Subject: token, From: people[1], To: []models.Addr{people[0]}, Date: baseDate}
	m.Body = bodyFromSeed(seed, token, size)
	id, err := r.st.AddMessage(delivery(m))
	if err != nil {
		r.c.Failf("store/add-error", "%s: AddMessage(%q, %d bytes): %v", who, box, size, err)
		return
	}
	r.c.Logf("%s add %q %s -> id %s (%d bytes)", who, box, token, id, len(m.Body))
	r.all[box] = append(r.all[box], c13Entry{Token: token, ID: id, Size: int64(len(m.Body))})
}

// runOther is the "other interface": it adds and removes messages directly
// through the store while the session is in TRANSACTION state.
func (r *c13Run) runOther() {
	c := r.c
	second := r.k.Names[1]
	if second == r.mailbox {
		second = r.k.Names[0]
	}
	for _, o := range r.k.Other {
		if o.Delay > 0 {
			simrt.Sleep(o.Delay)
		}
		if c.Failed() {
			return
		}
		r.applyOther("other", o, second)
	}
}

func (r *c13Run) applyOther(who string, o c13Other, second string) {
	c := r.c
	box := r.mailbox
	if o.Box == 1 {
		box = second
	}
	mutated := false
	switch o.Kind {
	case "add":
		before := len(r.all[box])
		r.addMsg(who, box, o.Size, o.Seed)
		mutated = len(r.all[box]) > before
	case "remove":
		l := r.all[box]
		if len(l) == 0 {
			return
		}
		e := l[o.Ref%len(l)]
		err := r.st.RemoveMessage(box, e.ID)
		c.Logf("%s remove %q id %s -> %s", who, box, e.ID, errStr(err))
		switch {
		case err == nil:
			r.removedByOther[r.key(box, e.ID)] = true
			mutated = true
		case isNotExist(err):
		default:
			c.Failf("store/remove-error", "%s: RemoveMessage(%q, %q): %v", who, box, e.ID, err)
		}
	}
	if mutated && box == r.mailbox {
		r.extChanges++
		if r.open {
			r.extDuring++
			c.Stat("probe.external_change_during_session", 1)
		}
	}
}

// runRacer waits until the server session makes its first file-system step
// after the client has sent QUIT in TRANSACTION state (the commit of the
// marks has begun) and then removes messages of the same mailbox through
// the store, as the REST API or another POP3 session would at that moment.
func (r *c13Run) runRacer() {
	t := simrt.Current()
	if !r.commitBegun && !r.clientEnded {
		t.Block("racer waits for the commit of QUIT")
	}
	if !r.commitBegun || r.c.Failed() {
		return
	}
	r.c.Stat("probe.removal_racing_quit_commit", 1)
	for _, o := range r.k.Racer {
		r.applyOther("racer", o, "")
	}
}

var c13CanonNum = regexp.MustCompile(`^-?(0|[1-9][0-9]*)$`)

// c13ParseNum classifies a message-number argument: canonical decimal
// (ok; huge values saturate) or anything else.
func c13ParseNum(s string) (n int64, canonical bool) {
	if !c13CanonNum.MatchString(s) {
		return 0, false
	}
	n, err := strconv.ParseInt(s, 10, 64)
	if err != nil {
		if s[0] == '-' {
			return -1 << 62, true
		}
		return 1 << 62, true
	}
	return n, true
}

// bracketLogin lists the candidate mailbox just before a PASS/APOP is sent.
// No other task mutates the store before the reply to it has been read, so
// this listing is "the mailbox at the moment of login".
func (r *c13Run) bracketLogin(verb string, args []string) {
	r.preOK = false
	cand := ""
	switch verb {
	case "PASS":
		if r.userKnown {
			cand = r.user
		}
	case "APOP":
		if len(args) >= 1 {
			cand = args[0]
		}
	}
	if cand == "" {
		return
	}
	ms, err := r.st.GetMessages(cand)
	if err != nil {
		r.c.Failf("store/list-error", "listing %q before login: %v", cand, err)
		return
	}
	r.preSnap = nil
	for _, m := range ms {
		r.preSnap = append(r.preSnap, models.POP3Msg{ID: m.ID(), Size: m.Size()})
	}
	r.preOK, r.preBox = true, cand
}

func (r *c13Run) login() {
	c := r.c
	r.state = "txn"
	c.Stat("probe.reached_transaction", 1)
	if !r.preOK {
		r.unsure = true
		c.Stat("probe.login_to_unknown_mailbox", 1)
		return
	}
	r.mailbox = r.preBox
	r.model = models.NewPOP3State(r.preSnap)
	c.Logf("client logged in to %q: snapshot %v", r.mailbox, r.preSnap)
	if r.model.N() == 0 {
		c.Stat("probe.login_empty_mailbox", 1)
	}
	if len(r.k.Other) > 0 {
		r.other = simrt.Go("other", r.runOther)
	}
	if len(r.k.Racer) > 0 {
		r.racer = simrt.Go("racer", r.runRacer)
		if fsys := simfs.Installed(c.Sim); fsys != nil {
			fsys.BeforeStep = func(_ *simfs.FS, st simfs.Step) {
				if !r.quitSent || r.commitBegun {
					return
				}
				if cur := simrt.Current(); cur == nil || cur.Name == "client" || cur.Name == "other" || cur.Name == "racer" || cur.Name == "main" {
					return
				}
				r.commitBegun = true
				c.Sim.MakeReady(r.racer)
			}
		}
	}
}

func (r *c13Run) listed(what string) {
	r.listings++
	r.c.Stat("probe.listing_verified", 1)
	if r.extChanges > 0 {
		r.listingsExt++
		r.c.Stat("probe.listing_verified_after_external_change", 1)
	}
	if r.model.NMarked() > 0 {
		r.c.Stat("probe.listing_verified_with_marks", 1)
	}
}

func c13Int(s string) (int64, bool) {
	n, err := strconv.ParseInt(s, 10, 64)
	return n, err == nil
}

// interpret advances the model from one command and its reply and asserts
// what the property states.
func (r *c13Run) interpret(line, verb string, args []string, rp popReply) {
	c := r.c
	if r.state == "auth" {
		switch verb {
		case "USER":
			if rp.OK {
				if len(args) == 1 && args[0] != "" {
					r.user, r.userKnown = args[0], true
				} else {
					r.user, r.userKnown = "", false
				}
			}
		case "PASS", "APOP":
			if rp.OK {
				r.login()
			}
		case "QUIT":
			if rp.OK {
				r.state, r.ending = "end", "quit-auth"
			}
		}
		return
	}
	// TRANSACTION
	switch verb {
	case "QUIT":
		if rp.OK {
			r.state, r.ending = "end", "quit-txn"
			if r.model != nil {
				for _, id := range r.model.MarkedIDs() {
					r.marked[id] = true
				}
			}
		} else if len(args) == 0 {
			c.Failf("QUIT/refused", "QUIT in TRANSACTION state answered %q", clipStr(rp.First, 80))
		}
		return
	case "RSET":
		if rp.OK {
			if r.model != nil {
				if r.model.NMarked() > 0 {
					c.Stat("probe.rset_with_marks", 1)
				}
				r.model.Rset()
			}
		} else if len(args) == 0 {
			c.Failf("RSET/refused", "RSET in TRANSACTION state answered %q", clipStr(rp.First, 80))
		}
		return
	}
	if r.unsure {
		return
	}
	m := r.model
	switch verb {
	case "STAT":
		if len(args) != 0 {
			return
		}
		if !rp.OK {
			c.Failf("STAT/refused", "STAT in TRANSACTION state answered %q", clipStr(rp.First, 80))
			return
		}
		f := strings.Fields(rp.First)
		if len(f) < 3 {
			c.Failf("STAT/unparseable", "STAT answered %q: expected +OK count size", clipStr(rp.First, 80))
			return
		}
		gc, ok1 := c13Int(f[1])
		gs, ok2 := c13Int(f[2])
		wc, ws := m.Stat()
		if !ok1 || !ok2 {
			c.Failf("STAT/unparseable", "STAT answered %q: expected +OK count size", clipStr(rp.First, 80))
		} else if gc != int64(wc) {
			c.Failf("STAT/count-mismatch", "STAT reports %d messages; the snapshot of %q taken at login has %d of which %d are marked (external changes so far: %d)", gc, r.mailbox, m.N(), m.NMarked(), r.extChanges)
		} else if gs != ws {
			c.Failf("STAT/size-mismatch", "STAT reports %d bytes; the unmarked part of the snapshot has %d", gs, ws)
		}
		r.listed("STAT")
	case "LIST", "UIDL":
		uid := verb == "UIDL"
		if len(args) == 0 {
			if !rp.OK {
				c.Failf(verb+"/refused", "%s in TRANSACTION state answered %q", verb, clipStr(rp.First, 80))
				return
			}
			want := m.Listing()
			if len(rp.Body) != len(want) {
				c.Failf(verb+"/listing-mismatch", "%s lists %d messages %q; the unmarked part of the snapshot has %d: %v (external changes so far: %d)", verb, len(rp.Body), rp.Body, len(want), want, r.extChanges)
				return
			}
			for i, ln := range rp.Body {
				f := strings.Fields(ln)
				if len(f) < 2 {
					c.Failf(verb+"/unparseable", "%s line %q: expected number and value", verb, clipStr(ln, 80))
					return
				}
				num, ok := c13Int(f[0])
				if !ok || num != int64(want[i].Num) {
					c.Failf(verb+"/listing-mismatch", "%s line %d is %q; expected message number %d: full listing %q, snapshot %v", verb, i, ln, want[i].Num, rp.Body, want)
					return
				}
				if uid {
					if f[1] != want[i].ID {
						c.Failf("UIDL/id-mismatch", "UIDL gives message %d the id %q; the store listed it as %q at login", num, f[1], want[i].ID)
						return
					}
				} else if sz, ok := c13Int(f[1]); !ok || sz != want[i].Size {
					c.Failf("LIST/size-mismatch", "LIST gives message %d the size %q; the store listed %d at login", num, f[1], want[i].Size)
					return
				}
			}
			r.listed(verb)
			return
		}
		if len(args) != 1 {
			return
		}
		n, canon := c13ParseNum(args[0])
		if !canon {
			return
		}
		switch {
		case m.Visible(n):
			if !rp.OK {
				c.Failf(verb+"/refused", "%s %d answered %q although message %d is in the snapshot and not marked", verb, n, clipStr(rp.First, 80), n)
				return
			}
			f := strings.Fields(rp.First)
			if len(f) < 3 {
				c.Failf(verb+"/unparseable", "%s %d answered %q", verb, n, clipStr(rp.First, 80))
				return
			}
			if num, ok := c13Int(f[1]); !ok || num != n {
				c.Failf(verb+"/listing-mismatch", "%s %d answered %q: wrong message number", verb, n, clipStr(rp.First, 80))
				return
			}
			e := m.Snap[n-1]
			if uid {
				if f[2] != e.ID {
					c.Failf("UIDL/id-mismatch", "UIDL %d gives id %q; the store listed it as %q at login", n, f[2], e.ID)
				}
			} else if sz, ok := c13Int(f[2]); !ok || sz != e.Size {
				c.Failf("LIST/size-mismatch", "LIST %d gives size %q; the store listed %d at login", n, f[2], e.Size)
			}
			r.listed(verb + " n")
		case m.InRange(n):
			if rp.OK {
				c.Failf(verb+"/shows-marked-message", "%s %d answered %q although message %d is marked deleted", verb, n, clipStr(rp.First, 80), n)
			}
		default:
			if rp.OK {
				c.Failf(verb+"/shows-nonexistent-message", "%s %s answered %q although the snapshot has %d messages", verb, clipStr(args[0], 30), clipStr(rp.First, 80), m.N())
			}
		}
	case "DELE":
		n, canon := int64(0), false
		if len(args) == 1 {
			n, canon = c13ParseNum(args[0])
		}
		if !canon {
			if rp.OK {
				// the statement does not say what this deletes: stop asserting
				r.unsure = true
				c.Stat("probe.dele_of_non_number_accepted", 1)
			}
			return
		}
		switch {
		case m.Visible(n):
			if !rp.OK {
				c.Failf("DELE/valid-refused", "DELE %d answered %q although message %d is in the snapshot and not marked", n, clipStr(rp.First, 80), n)
				return
			}
			m.Dele(n)
			r.deles++
			c.Stat("probe.dele_accepted", 1)
		case m.InRange(n):
			c.Stat("probe.dele_repeated", 1) // stays marked whatever the reply says
		default:
			if rp.OK {
				c.Failf("DELE/accepted-nonexistent-message", "DELE %s answered %q although the snapshot has %d messages", clipStr(args[0], 30), clipStr(rp.First, 80), m.N())
			}
		}
	}
}

func c13Unread(end string) bool { return strings.HasSuffix(end, "-unread") }

func (r *c13Run) runClient() {
	c, k := r.c, r.k
	var cl *pop3Client
	defer func() {
		if cl != nil {
			_ = cl.conn.Close()
		}
		r.open = false
		r.clientEnd, r.clientEnded = time.Now(), true
		if r.racer != nil {
			c.Sim.MakeReady(r.racer)
		}
	}()
	r.ending = "none"
	cl, err := dialPOP3(c, "client", k.Timeout+30*time.Second)
	if err != nil {
		c.Failf("dial-refused", "client: %v", err)
		return
	}
	if g := cl.readGreeting(); g.Err != nil || !g.OK {
		c.Failf("no-greeting", "expected a +OK greeting, got %q (%v)", clipStr(g.First, 80), g.Err)
		return
	}
	r.open = true
	r.state = "auth"
	lastUnread := false
	for i, cmd := range k.Script {
		if cmd.Pause > 0 {
			simrt.Sleep(cmd.Pause)
		}
		verb, args := popVerb(cmd.Line)
		if r.state == "auth" && verb == "PASS" && r.userKnown && !r.midDone {
			// the mailbox changes between USER and PASS
			r.midDone = true
			for _, o := range k.MidLogin {
				switch o.Kind {
				case "add":
					r.addMsg("between USER and PASS", r.user, o.Size, o.Seed)
				case "remove":
					if l := r.all[r.user]; len(l) > 0 {
						e := l[o.Ref%len(l)]
						if err := r.st.RemoveMessage(r.user, e.ID); err == nil {
							r.removedByOther[r.key(r.user, e.ID)] = true
							c.Logf("between USER and PASS: removed %q id %s", r.user, e.ID)
						}
					}
				}
				c.Stat("probe.mailbox_changed_between_USER_and_PASS", 1)
			}
		}
		if r.state == "auth" && (verb == "PASS" || verb == "APOP") {
			r.bracketLogin(verb, args)
		}
		if err := cl.send(cmd.Line, cmd.Term); err != nil {
			c.Failf("unexpected-disconnect", "sending command %d %q failed: %v", i, clipStr(cmd.Line, 60), err)
			r.ending = "server-closed"
			return
		}
		if verb == "QUIT" && r.state == "txn" {
			r.quitSent = true
		}
		if i == len(k.Script)-1 && c13Unread(k.End) {
			lastUnread = true
			if verb == "QUIT" && r.state == "txn" {
				// QUIT is on its way and its reply will not be read.  If the client now
				// resets the connection the line may never reach the server; if it closes
				// or just stays silent the server receives QUIT, and QUIT commits.
				r.ambiguous = k.End == "abort-unread"
				r.quitUnreadCommitted = !r.ambiguous
				if r.model != nil {
					for _, id := range r.model.MarkedIDs() {
						r.marked[id] = true
					}
				}
			}
			break
		}
		multi := popMulti(cmd.Line)
		rp := cl.readReply(multi)
		switch {
		case rp.Err != nil && rp.InMulti:
			c.Failf(verb+"/multiline-reply-not-terminated", "command %d %q was answered %q and %d more lines %q, then %v: the terminating \".\" never came",
				i, clipStr(cmd.Line, 60), clipStr(rp.First, 80), len(rp.Body), tailStr(rp.Body, 3), rp.Err)
			r.ending = "server-closed"
			return
		case rp.Err != nil:
			if ne, ok := rp.Err.(interface{ Timeout() bool }); ok && ne.Timeout() {
				c.Failf("wedge/no-reply", "command %d %q got no reply within %v (idle timeout is %v)", i, clipStr(cmd.Line, 60), cl.timeout, k.Timeout)
			} else {
				c.Failf("unexpected-disconnect", "command %d %q: connection ended instead of a reply: %v (partial line %q)", i, clipStr(cmd.Line, 60), rp.Err, clipStr(rp.First, 60))
			}
			r.ending = "server-closed"
			return
		case !rp.OK && !rp.Neg:
			c.Failf("reply-framing/no-status-indicator", "command %d %q answered %q, which starts with neither +OK nor -ERR", i, clipStr(cmd.Line, 60), clipStr(rp.First, 80))
			r.ending = "client-gave-up"
			return
		case rp.BadLine != "":
			c.Failf("reply-framing/line-without-CRLF", "command %d %q: reply line %q is not terminated by CRLF", i, clipStr(cmd.Line, 60), clipStr(rp.BadLine, 80))
			r.ending = "client-gave-up"
			return
		}
		r.interpret(cmd.Line, verb, args, rp)
		if c.Failed() {
			r.ending = "client-gave-up"
			return
		}
		if r.state == "end" {
			break
		}
	}
	if r.state == "end" {
		// QUIT was accepted: the server must end the session by itself
		if !cl.waitEOF() {
			c.Failf("QUIT/connection-left-open", "QUIT was answered +OK but the server did not close the connection within %v", cl.timeout)
		}
		return
	}
	end := k.End
	if lastUnread {
		c.Stat("fault.reply_left_unread", 1)
	}
	switch end {
	case "quit", "close", "close-unread":
		// "quit" arrives here only if QUIT was refused in AUTHORIZATION state
		_ = cl.conn.Close()
		r.ending = "close"
		c.Stat("fault.conn_fin", 1)
	case "abort", "abort-unread":
		cl.conn.Abort()
		r.ending = "abort"
		c.Stat("fault.conn_rst", 1)
	case "partial-quit":
		c.Logf("client -> \"QUIT\" without line end, then FIN")
		_ = cl.conn.SetWriteDeadline(time.Now().Add(cl.timeout))
		_, _ = cl.conn.Write([]byte("QUIT"))
		_ = cl.conn.Close()
		r.ending = "close"
		c.Stat("fault.conn_fin_mid_command", 1)
	case "stall", "stall-unread":
		// A silent client must be dropped after the idle timeout.  When the
		// client also left (part of) a reply unread, the server may in addition
		// spend one write deadline on a reply or on its goodbye line before
		// it gives up: one more timeout is allowed then.
		limit := k.Timeout + k.Timeout/4 + 5*time.Second
		if lastUnread {
			limit += k.Timeout
		}
		c.Logf("client stalls for %v", limit)
		simrt.Sleep(limit)
		c.Stat("fault.stall_past_idle_timeout", 1)
		r.ending = "timeout"
		if !cl.conn.PeerClosed() {
			c.Failf(end+"/session-outlives-idle-timeout", "the client was silent for %v (idle timeout %v, last reply unread: %v, %d bytes unread) and the server has not closed the connection",
				limit, k.Timeout, lastUnread, cl.conn.Buffered()+cl.br.Buffered())
		}
	}
}

func tailStr(l []string, n int) []string {
	if len(l) > n {
		l = l[len(l)-n:]
	}
	out := make([]string, len(l))
	for i, s := range l {
		out[i] = clipStr(s, 60)
	}
	return out
}

// storeDiff compares the final listing of box with what must be there when
// the marked messages were (commit) or were not removed by the session.
func (r *c13Run) storeDiff(box string, got map[string]bool, commit bool) (class, msg string) {
	for _, e := range r.all[box] {
		gone := r.removedByOther[r.key(box, e.ID)]
		byQuit := commit && box == r.mailbox && r.marked[e.ID]
		switch {
		case got[e.ID] && gone:
			return "store/removed-message-still-listed", fmt.Sprintf("mailbox %q still lists %s (%s), which the other task removed successfully", box, e.ID, e.Token)
		case got[e.ID] && byQuit:
			return "marked-message-still-in-store", fmt.Sprintf("mailbox %q still lists %s (%s), which was marked deleted when QUIT was accepted", box, e.ID, e.Token)
		case !got[e.ID] && !gone && !byQuit:
			return "message-lost", fmt.Sprintf("mailbox %q no longer lists %s (%s): it was not marked deleted at a QUIT and the other task did not remove it", box, e.ID, e.Token)
		}
	}
	return "", ""
}

func runC13(c *Ctx, cs Case) {
	k := cs.(*c13Case)
	if k.Backend == "file" {
		ensureFS(c.Sim)
	}
	simnet.Of(c.Sim).Profile = k.Net
	st, err := openStore(StoreCfg{Backend: k.Backend}, extension.NewHost())
	if err != nil {
		panic(err)
	}
	r := &c13Run{c: c, k: k, st: st, all: map[string][]c13Entry{}, removedByOther: map[string]bool{}, marked: map[string]bool{}}
	h := fnv.New64a()
	for _, s := range k.Script {
		h.Write([]byte(s.Line + "\n"))
	}
	r.scriptDigest = h.Sum64()
	for _, m := range k.Prefill {
		r.addMsg("prefill", k.Names[m.Box], m.Size, m.Seed)
	}
	if c.Failed() {
		return
	}
	env := startPOP3(c, config.POP3{Addr: pop3Addr, Domain: "inbucket.sim", Timeout: k.Timeout}, st)
	client := c.Go("client", r.runClient)
	c.Main.Join(client)
	// the session must end by itself: Drain returns when the session task is done
	env.stop()
	if r.clientEnded {
		if d := time.Since(r.clientEnd); d > k.Timeout+k.Timeout/4+5*time.Second {
			c.Failf("session-outlives-timeout", "the session task ended %v after the client was done (ending %s, idle timeout %v)", d, r.ending, k.Timeout)
		}
	}
	if r.other != nil {
		c.Main.Join(r.other)
	}
	if r.racer != nil {
		c.Sim.MakeReady(r.racer)
		c.Main.Join(r.racer)
	}
	if c.Failed() {
		return
	}
	c.Logf("session over: ending=%s ambiguous=%v mailbox=%q marked=%d external changes=%d", r.ending, r.ambiguous, r.mailbox, len(r.marked), r.extChanges)

	// ---- after the session: what did the store lose? ----
	commit := r.ending == "quit-txn" || r.quitUnreadCommitted
	if r.quitUnreadCommitted {
		c.Stat("probe.quit_sent_reply_unread_connection_not_reset", 1)
	}
	if (commit || r.ambiguous) && r.unsure {
		c.Stat("probe.final_check_skipped_model_unsure", 1)
	} else {
		for _, box := range k.Names {
			ms, err := st.GetMessages(box)
			if err != nil {
				c.Failf("store/list-error", "final listing of %q: %v", box, err)
				return
			}
			got := map[string]bool{}
			known := map[string]bool{}
			for _, e := range r.all[box] {
				known[e.ID] = true
			}
			for _, m := range ms {
				if got[m.ID()] {
					c.Failf("store/duplicate-id", "mailbox %q lists id %q twice after the session", box, m.ID())
				}
				got[m.ID()] = true
				if !known[m.ID()] {
					c.Failf("store/unknown-message", "mailbox %q lists id %q that nobody added", box, m.ID())
				}
			}
			if r.ambiguous {
				c1, m1 := r.storeDiff(box, got, true)
				c2, _ := r.storeDiff(box, got, false)
				if c1 != "" && c2 != "" {
					c.Failf("after-unread-QUIT/neither-all-marked-nor-nothing-removed", "QUIT was sent with %d marks and the connection dropped before the reply: %s", len(r.marked), m1)
				}
				continue
			}
			if cl, msg := r.storeDiff(box, got, commit); cl != "" {
				if !strings.HasPrefix(cl, "store/") {
					cl = "after-" + r.ending + "/" + cl
				}
				c.Failf(cl, "%s (session ending: %s)", msg, r.ending)
			}
		}
	}
	if c.Failed() {
		return
	}
	// ---- evidence ----
	c.Stat("probe.ending."+r.ending, 1)
	if r.ambiguous {
		c.Stat("probe.quit_sent_reply_unread", 1)
	}
	if commit && len(r.marked) > 0 {
		c.Stat("probe.quit_committed_marks", 1)
		ext := false
		for _, e := range r.all[r.mailbox] {
			if r.marked[e.ID] && r.removedByOther[r.key(r.mailbox, e.ID)] {
				ext = true
			}
		}
		if ext {
			c.Stat("probe.marked_message_removed_externally_before_quit", 1)
		}
	}
	if !commit && r.deles > 0 {
		c.Stat("probe.marks_discarded_by_non_quit_ending", 1)
	}
	if r.state != "auth" && r.state != "" && r.model != nil && r.listings > 0 {
		c.Stat("probe.nontrivial_runs", 1)
		c.NonTrivial(k.Backend, r.model.N(), r.listings, r.listingsExt, r.deles, r.ending, r.extDuring, r.scriptDigest)
	}
}

func init() {
	register(&Prop{
		ID:    "C13",
		Level: "exploration",
		Gen:   genC13,
		Run:   runC13,
		Config: func(cs Case) simrt.Config {
			return simrt.Config{NoJumps: true, MaxSteps: 3000000, MaxSimTime: 4 * time.Hour}
		},
		BudgetIsViolation: true,
		QuickRuns:         6000,
		ThoroughRuns:      150000,
		Rule: "the real POP3 server (Start -> serve -> Accept -> startSession -> handlers -> real mem/file store) on the simulated network, " +
			"three mailboxes pre-filled with 0-8 messages of 0-20000 bytes; one reply-driven client plays 0-16 command lines from a grammar " +
			"(USER/PASS/APOP in any order, repeated, with missing arguments, to a filled, a second or an empty mailbox; STAT/LIST/UIDL/RETR/TOP/" +
			"DELE with valid, zero, negative, N+1, huge, non-numeric, repeated, missing and surplus arguments; NOOP, RSET, CAPA, unknown verbs, " +
			"empty, binary and 70000-byte lines, lower-case verbs, bare-LF line ends, idle pauses up to half the timeout; QUIT in either state) " +
			"and ends by QUIT, FIN, RST, FIN in the middle of a QUIT line, a stall longer than the idle timeout, or any of these with the last " +
			"reply left unread. After the reply to PASS/APOP a second task adds/removes 0-6 messages in the same (or another) mailbox directly " +
			"through the store. Per-run swarm: back-end, mailbox names (plain, same hash bucket, with punctuation), idle timeout 30/60/120 s, " +
			"segmentation / delay / buffer size of the connection, scheduler policy. Oracle: snapshot = store listing taken just before the " +
			"accepted PASS/APOP; every STAT, LIST, UIDL (with and without argument) must equal the unmarked part of the snapshot; DELE of an " +
			"unmarked number must succeed, RSET unmarks; after Drain() the store must have lost exactly the messages marked at an accepted " +
			"QUIT (plus what the other task removed) and nothing after any other ending; no panic, no reply missing, session ends within the " +
			"idle timeout. non-trivial = TRANSACTION state reached and >=1 listing verified, distinct by (back-end, snapshot size, listings, " +
			"listings after an external change, DELEs, ending, external changes during the session, script)",
		Real: []string{"pkg/server/pop3 (listener, session, handlers)", "pkg/storage/mem", "pkg/storage/file", "pkg/message (Delivery)"},
		Stub: []string{"TCP (simnet listener/conn)", "scheduler", "sync", "disk (simfs)", "clock", "TLS never enabled"},
		Assumptions: []string{
			"the snapshot is bracketed: the other task starts only after the client has read the reply to PASS/APOP, the reference listing is taken just before that command is sent",
			"mailbox names are lower-case, without spaces: the class where naming is undisputed (POP3 USER is not mapped through the naming policy; that is C04's subject)",
			"error replies are only required to be framed (-ERR line); RETR/TOP content and RETR/TOP of marked messages are not asserted",
			"a +OK to DELE with a non-numeric or missing argument makes the model unsure (nothing asserted afterwards); never observed",
			"QUIT sent in TRANSACTION state whose reply is not read before the connection drops may or may not commit: both outcomes are accepted, nothing in between",
			"cap, size limit and retention are off",
			"no single reply is larger than the simulated network can carry within one idle timeout: on the slowest profile (64/1024-byte buffer, up to 2 s per segment) the over-long unknown command, which the server echoes in one write, is 600 instead of 70000 bytes",
		},
	})
}
