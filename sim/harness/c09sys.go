package harness

import (
	"bytes"
	"fmt"
	"sort"
	"strings"
	"time"

	"github.com/inbucket/inbucket/v3/pkg/extension"
	"github.com/inbucket/inbucket/v3/vsim/models"
	"github.com/inbucket/inbucket/v3/vsim/simnet"
	"github.com/inbucket/inbucket/v3/vsim/simrt"
)

// C09S is the system-level companion of C09: the same clause ("every delivery
// that was acknowledged is present afterwards unless something removed it, no
// operation hangs or crashes") with the concurrent clients the quantifier
// names - SMTP deliveries, REST deletes / purges / mark-seen, POP3 sessions
// deleting on QUIT - going through the real servers and handlers instead of
// calling the store directly.

type c09sActor struct {
	Kind  string // smtp | rest | pop3
	Box   string
	N     int
	Steps []string // rest: list delete purge seen ; pop3: dele quit drop
}

type c09sCase struct {
	Store   StoreCfg
	Net     simnet.Profile
	Boxes   []string
	Actors  []c09sActor
	Prefill int // messages per mailbox delivered before the actors start
}

func (k *c09sCase) Describe() []string {
	l := []string{fmt.Sprintf("store=%s %s mailboxes=%v prefill=%d each", k.Store, profileString(k.Net), k.Boxes, k.Prefill)}
	for i, a := range k.Actors {
		l = append(l, fmt.Sprintf("actor%d %s box=%s n=%d %v", i, a.Kind, a.Box, a.N, a.Steps))
	}
	return l
}

func genC09S(w *simrt.Choices, tier string, avoid map[string]bool) Case {
	k := &c09sCase{Store: StoreCfg{Backend: []string{"mem", "file"}[w.Choose(2)]}, Net: netProfile(w)}
	k.Net.MaxDelay = []time.Duration{0, 3 * time.Millisecond}[w.Choose(2)]
	k.Boxes = []string{"alpha", "beta"}[:1+w.Choose(2)]
	na := 2 + w.Choose(4)
	for i := 0; i < na; i++ {
		a := c09sActor{Box: k.Boxes[w.Choose(len(k.Boxes))]}
		switch w.Choose(5) {
		case 0, 1:
			a.Kind, a.N = "smtp", 1+w.Choose(3)
		case 2, 3:
			a.Kind = "rest"
			for j, n := 0, 1+w.Choose(5); j < n; j++ {
				a.Steps = append(a.Steps, []string{"list", "delete", "delete", "purge", "seen", "get", "source", "latest"}[w.Choose(8)])
			}
		default:
			a.Kind = "pop3"
			a.N = 1 + w.Choose(3)
			a.Steps = []string{[]string{"quit", "quit", "drop"}[w.Choose(3)]}
		}
		k.Actors = append(k.Actors, a)
	}
	// at least one delivering actor
	k.Actors[0].Kind, k.Actors[0].N, k.Actors[0].Steps = "smtp", 1+w.Choose(3), nil
	// mail that is already there when the actors start (so that deletes, purges and
	// POP3 sessions have something to work on from the first moment)
	k.Prefill = []int{0, 0, 2, 4, 6}[w.Choose(5)]
	return k
}

type c09sEvent struct {
	Kind      string // deliver delete purge popquit
	Box       string
	Token     string   // deliver, delete
	Marked    []string // popquit: tokens marked
	Call, Ret int64
	OK        bool
}

func runC09S(c *Ctx, cs Case) {
	k := cs.(*c09sCase)
	if k.Store.Backend == "file" {
		ensureFS(c.Sim)
	}
	simnet.Of(c.Sim).Profile = k.Net
	eh := extension.NewHost()
	st, err := openStore(k.Store, eh)
	if err != nil {
		panic(err)
	}
	root := baseRoot()
	root.SMTP.Timeout = 600 * time.Second
	root.POP3.Timeout = 600 * time.Second
	env := startSMTP(c, root, st, eh)
	pop := startPOP3(c, root.POP3, st)
	web := startWeb(c, root, env.mgr, eh)

	var seq int64
	stamp := func() int64 { seq++; return seq }
	var events []c09sEvent
	tok := 0
	for _, b := range k.Boxes {
		for i := 0; i < k.Prefill; i++ {
			token := fmt.Sprintf("pre-%s-%d", b, i)
			ev := c09sEvent{Kind: "deliver", Box: b, Token: token, Call: stamp()}
			m := &models.Msg{Mailbox: b, Subject: token, From: people[1], Date: time.Now(), Body: mkMessage(token, "hdr@sender.test", []string{b + "@example.com"}, 40, 1)}
			if _, err := st.AddMessage(delivery(m)); err != nil {
				panic("harness: prefill: " + err.Error())
			}
			ev.Ret, ev.OK = stamp(), true
			events = append(events, ev)
		}
	}
	for ai, a := range k.Actors {
		ai, a := ai, a
		name := fmt.Sprintf("%s%d", a.Kind, ai)
		switch a.Kind {
		case "smtp":
			c.Go(name, func() {
				cl, err := dialSMTP(c, name, 900*time.Second)
				if err != nil {
					c.Failf("dial-refused", "%s: %v", name, err)
					return
				}
				defer cl.close()
				cl.readReply()
				cl.cmd("EHLO client.sim")
				for i := 0; i < a.N; i++ {
					tok++
					token := fmt.Sprintf("tok%d", tok)
					cl.cmd("MAIL FROM:<sender@origin.test>")
					cl.cmd("RCPT TO:<" + a.Box + "@example.com>")
					if r := cl.cmd("DATA"); r.Code != 354 {
						c.Failf("data-refused", "%s: DATA answered %s", name, r)
						return
					}
					ev := c09sEvent{Kind: "deliver", Box: a.Box, Token: token, Call: stamp()}
					fin := cl.sendData(mkMessage(token, "hdr@sender.test", []string{a.Box + "@example.com"}, 40, 1))
					ev.Ret, ev.OK = stamp(), fin.Code == 250
					if fin.Err != nil {
						c.Failf("operation-hangs", "%s: no final reply to DATA: %v", name, fin.Err)
						return
					}
					events = append(events, ev)
				}
				cl.cmd("QUIT")
			})
		case "rest":
			c.Go(name, func() {
				var known []*apiMsg
				for _, stp := range a.Steps {
					switch stp {
					case "list":
						r := web.request("GET", web.apiPath(a.Box), nil)
						if r.Code != 200 || r.Panic != "" {
							c.Failf("rest-list-failed", "%s: GET list -> %s", name, r)
							return
						}
						known, _ = decodeList(r.Body)
					case "latest":
						// whatever the newest message is at that moment: one message, not parts of two
						r := web.request("GET", web.apiPath(a.Box, "latest"), nil)
						switch {
						case r.Panic != "":
							c.Failf("rest-get-panics", "%s: GET latest -> %s", name, r)
							return
						case r.Code == 404:
						case r.Code == 200:
							m, err := decodeMsg(r.Body)
							if err != nil || m.Body == nil {
								c.Failf("rest-get-failed", "%s: GET latest -> %s: not a message", name, r)
								return
							}
							if !strings.Contains(m.Body.Text, "body of "+m.Subject) {
								c.Failf("rest-latest-mixes-two-messages", "%s: GET latest returned id %q subject %q with the text of another message: %q", name, m.ID, m.Subject, clipStr(m.Body.Text, 80))
								return
							}
						default:
							c.Failf("rest-get-failed", "%s: GET latest -> %s", name, r)
							return
						}
					case "get", "source":
						if len(known) == 0 {
							r := web.request("GET", web.apiPath(a.Box), nil)
							known, _ = decodeList(r.Body)
						}
						if len(known) == 0 {
							continue
						}
						m := known[len(known)/2]
						target := web.apiPath(a.Box, m.ID)
						if stp == "source" {
							target = web.apiPath(a.Box, m.ID, "source")
						}
						// the message is there (200, and it is that message) or has been removed
						// by someone in the meantime (404): nothing else explains the answer
						r := web.request("GET", target, nil)
						switch {
						case r.Panic != "":
							c.Failf("rest-get-panics", "%s: GET %s -> %s", name, target, r)
							return
						case r.Code == 404:
						case r.Code == 200:
							if !bytes.Contains(r.Body, []byte(m.Subject)) {
								c.Failf("rest-get-returns-another-message", "%s: GET %s (listed with subject %q) -> %s", name, target, m.Subject, r)
								return
							}
						default:
							c.Failf("rest-get-failed", "%s: GET %s -> %s (the message was listed a moment ago; it is either still there or gone)", name, target, r)
							return
						}
					case "delete", "seen":
						if len(known) == 0 {
							r := web.request("GET", web.apiPath(a.Box), nil)
							known, _ = decodeList(r.Body)
						}
						if len(known) == 0 {
							continue
						}
						m := known[len(known)/2]
						if stp == "seen" {
							r := web.request("PATCH", web.apiPath(a.Box, m.ID), []byte(`{"seen":true}`))
							if r.Panic != "" || (r.Code != 200 && r.Code != 404) {
								c.Failf("rest-markseen-failed", "%s: PATCH -> %s", name, r)
								return
							}
							continue
						}
						ev := c09sEvent{Kind: "delete", Box: a.Box, Token: m.Subject, Call: stamp()}
						r := web.request("DELETE", web.apiPath(a.Box, m.ID), nil)
						ev.Ret, ev.OK = stamp(), r.Code == 200
						if r.Panic != "" || (r.Code != 200 && r.Code != 404) {
							c.Failf("rest-delete-failed", "%s: DELETE -> %s", name, r)
							return
						}
						events = append(events, ev)
					case "purge":
						ev := c09sEvent{Kind: "purge", Box: a.Box, Call: stamp()}
						r := web.request("DELETE", web.apiPath(a.Box), nil)
						ev.Ret, ev.OK = stamp(), r.Code == 200
						if !ev.OK {
							c.Failf("rest-purge-failed", "%s: DELETE mailbox -> %s", name, r)
							return
						}
						events = append(events, ev)
					}
				}
			})
		case "pop3":
			c.Go(name, func() {
				pc, err := dialPOP3(c, name, 900*time.Second)
				if err != nil {
					c.Failf("dial-refused", "%s: %v", name, err)
					return
				}
				defer pc.conn.Close()
				pc.readGreeting()
				say := func(line string, multi bool) popReply {
					_ = pc.send(line, "\r\n")
					r := pc.readReply(multi)
					if r.Err != nil {
						c.Failf("operation-hangs", "%s: %q got no reply: %v", name, line, r.Err)
					}
					return r
				}
				say("USER "+a.Box, false)
				if r := say("PASS x", false); !r.OK {
					return
				}
				// learn which token is which number: TOP n 0 returns the headers
				l := say("LIST", true)
				var marked []string
				for i := 1; i <= len(l.Body) && i <= a.N; i++ {
					top := say(fmt.Sprintf("TOP %d 0", i), true)
					token := ""
					for _, ln := range top.Body {
						if strings.HasPrefix(ln, "Subject: ") {
							token = strings.TrimPrefix(ln, "Subject: ")
						}
					}
					if d := say(fmt.Sprintf("DELE %d", i), false); d.OK && token != "" {
						marked = append(marked, token)
					}
				}
				if c.Failed() {
					return
				}
				if a.Steps[0] == "drop" {
					c.Stat("fault.pop3_dropped_with_marks", 1)
					return
				}
				ev := c09sEvent{Kind: "popquit", Box: a.Box, Marked: marked, Call: stamp()}
				q := say("QUIT", false)
				ev.Ret, ev.OK = stamp(), q.OK
				events = append(events, ev)
			})
		}
	}
	c.JoinAll()
	env.cancel()
	pop.stop()
	env.srv.Drain()
	if c.Failed() {
		return
	}
	// ---- oracle ----
	present := map[string]int{} // "box/token" -> copies
	for _, b := range k.Boxes {
		ms, err := st.GetMessages(b)
		if err != nil {
			c.Failf(tagOf(k.Store)+"/final-listing-error", "%q: %v", b, err)
			return
		}
		for _, m := range ms {
			present[b+"/"+m.Subject()]++
		}
	}
	delivered := map[string]c09sEvent{}
	for _, e := range events {
		if e.Kind == "deliver" && e.OK {
			delivered[e.Box+"/"+e.Token] = e
		}
	}
	var keys []string
	for key := range present {
		keys = append(keys, key)
	}
	sort.Strings(keys)
	for _, key := range keys {
		if present[key] > 1 {
			c.Failf("duplicate-message", "%s is stored %d times after one acknowledged delivery", key, present[key])
		}
	}
	var dkeys []string
	for key := range delivered {
		dkeys = append(dkeys, key)
	}
	sort.Strings(dkeys)
	overlapping := 0
	for _, key := range dkeys {
		d := delivered[key]
		canBeGone, mustBeGone := false, ""
		for _, e := range events {
			if e.Box != d.Box || !e.OK {
				continue
			}
			switch e.Kind {
			case "delete":
				if e.Token == d.Token {
					canBeGone, mustBeGone = true, fmt.Sprintf("REST DELETE of it was answered 200 at [%d,%d]", e.Call, e.Ret)
				}
			case "purge":
				if d.Call < e.Ret {
					canBeGone = true
				}
				if d.Ret < e.Call {
					mustBeGone = fmt.Sprintf("the mailbox was purged (200) at [%d,%d], after the delivery had been acknowledged at %d", e.Call, e.Ret, d.Ret)
				}
				if d.Call < e.Ret && e.Call < d.Ret {
					overlapping++
				}
			case "popquit":
				for _, t := range e.Marked {
					if t == d.Token {
						canBeGone, mustBeGone = true, fmt.Sprintf("a POP3 session had marked it and its QUIT was answered +OK at [%d,%d]", e.Call, e.Ret)
					}
				}
			}
		}
		switch {
		case present[key] == 0 && !canBeGone:
			c.Failf(tagOf(k.Store)+"/acknowledged-delivery-lost", "%s was acknowledged with 250 at [%d,%d] and nothing deleted it, but it is not in the mailbox", key, d.Call, d.Ret)
		case present[key] > 0 && mustBeGone != "":
			c.Failf(tagOf(k.Store)+"/deleted-message-still-there", "%s is still in the mailbox although %s", key, mustBeGone)
		}
	}
	c.Stat("probe.system_level_runs", 1)
	c.Stat("probe.deliveries_overlapping_a_purge", int64(overlapping))
	c.NonTrivial("sys", len(events), len(k.Actors), k.Store.Backend, c.Sim.Steps)
}

func init() {
	register(&Prop{
		ID:    "C09S",
		Level: "exploration",
		Gen:   genC09S,
		Run:   runC09S,
		Config: func(cs Case) simrt.Config {
			return simrt.Config{NoJumps: true, MaxSteps: 2000000, MaxSimTime: 12 * time.Hour}
		},
		BudgetIsViolation: true,
		QuickRuns:         4000,
		ThoroughRuns:      80000,
		Rule: "system-level companion of C09: 2-5 concurrent actors on 1-2 mailboxes through the real servers - SMTP sessions delivering, a REST client " +
			"listing / deleting / purging / marking seen through the real router, POP3 sessions marking and QUITting or dropping - on the memory or file " +
			"store; every operation must be answered; at the end an acknowledged delivery may be missing only if an acknowledged delete, an overlapping or " +
			"later purge, or a POP3 QUIT with it marked explains it, and must be missing if such an operation was acknowledged after the delivery",
	})
}

func init() {
	register(&Prop{
		ID:    "C09SR",
		Level: "exploration",
		Gen:   genC09S,
		Run:   runC09S,
		Config: func(cs Case) simrt.Config {
			return simrt.Config{NoJumps: true, MaxSteps: 2000000, MaxSimTime: 12 * time.Hour}
		},
		RaceMode:     true,
		QuickRuns:    800,
		ThoroughRuns: 20000,
		Rule: "race-mode companion of C09S: the same SMTP, REST and POP3 actors on shared mailboxes of both back-ends in a -race binary; a ThreadSanitizer report " +
			"counts when, for both accesses, the innermost frame belonging to this module is Inbucket code (handlers, manager, stores, policy)",
		Real: []string{"pkg/server/smtp", "pkg/server/pop3", "pkg/rest", "pkg/server/web", "pkg/message", "pkg/storage/mem", "pkg/storage/file", "pkg/extension", "pkg/msghub"},
		Stub: []string{"TCP (simnet)", "HTTP connection (in-process)", "scheduler", "sync (edges published to ThreadSanitizer)", "disk (simfs)", "clock"},
	})
}
