package harness

import (
	"fmt"
	"strings"

	"github.com/inbucket/inbucket/v3/pkg/extension"
	"github.com/inbucket/inbucket/v3/pkg/storage"
	"github.com/inbucket/inbucket/v3/vsim/models"
	"github.com/inbucket/inbucket/v3/vsim/simfs"
	"github.com/inbucket/inbucket/v3/vsim/simrt"
)

// C11: a crash (process death) at any file-system step of a file-store update
// leaves every mailbox readable; the interrupted operation happened completely
// or not at all; the mailbox accepts new mail afterwards.

type crashPoint struct {
	fs      *simfs.FS
	op      int
	step    string // kind of the step about to execute
	path    string
	partial int // bytes of the write applied (-1 = none: state before the step)
}

func stepSite(kind, path string) string {
	base := path
	if i := strings.LastIndex(path, "/"); i >= 0 {
		base = path[i+1:]
	}
	what := "dir"
	switch {
	case base == "index.gob":
		what = "index"
	case strings.HasPrefix(base, "index.gob"):
		what = "index-tmp"
	case strings.HasSuffix(base, ".raw"):
		what = "raw"
	}
	if i := strings.Index(kind, "@"); i >= 0 {
		kind = kind[:i]
	}
	return kind + " " + what
}

var c11Kinds = []string{"add", "add", "add", "add", "seen", "seen", "remove", "remove", "purge", "list"}

func init() {
	register(&Prop{
		ID:          "C11",
		EvalCounter: "probe.crash_points",
		Level:       "fault_enumeration",
		Gen: func(w *simrt.Choices, tier string, avoid map[string]bool) Case {
			cfg := StoreCfg{Backend: "file", Cap: []int{0, 0, 1, 2, 3}[w.Choose(5)]}
			h := &storeHistory{Cfgs: []StoreCfg{cfg}}
			h.Names = pickNames(w, 1+w.Choose(3), false)
			n := 5 + w.Choose(21)
			h.Ops = genSOps(w, h.Names, n, 9000, c11Kinds, map[string]bool{"missing-id": true})
			if w.Choose(3) == 0 {
				// a second client on its own mailboxes, preferably in the same hash directories,
				// so that crashes also land while two mailboxes are mid-update
				all := pickNames(w, len(h.Names)+1+w.Choose(2), false)
				for _, nm := range all {
					dup := false
					for _, x := range h.Names {
						dup = dup || x == nm
					}
					if !dup {
						h.Names2 = append(h.Names2, nm)
					}
				}
				if len(h.Names2) > 0 {
					h.Ops2 = genSOps(w, h.Names2, 3+w.Choose(10), 5000, c11Kinds, map[string]bool{"missing-id": true})
				}
			}
			return h
		},
		Config:            func(cs Case) simrt.Config { return simrt.Config{NoJumps: true} },
		Run:               runC11,
		BudgetIsViolation: true,
		QuickRuns:         1500,
		ThoroughRuns:      40000,
		Rule: "seeded histories of 5-25 mutating operations (deliver, mark-seen, remove, purge; cap in {0,1,2,3}) on the real file store over " +
			"the simulated disk; at EVERY file-system mutation step of every operation (mkdir, create/truncate, each write call, remove, rmdir) " +
			"and for write steps at partial lengths (0, 1, half, len-1 of the bytes of that call) a crash image is taken (completed calls " +
			"persist, the call in progress is absent or partially applied); every image is reopened with file.New and checked: all mailboxes " +
			"list and visit without error, untouched mailboxes equal the model, the updated mailbox equals the model before or after the " +
			"interrupted operation with full content, and a new delivery to it succeeds. Crash points are exhaustive per history; histories " +
			"are sampled. non-trivial = crash image inside an operation; distinct by (operation kind, step site, partial?, model state)",
		Real: []string{"pkg/storage/file"},
		Stub: []string{"disk (simfs) with crash images: process-death model, no lost or reordered completed calls"},
		Assumptions: []string{
			"crash = process death: every completed system call persists (Inbucket never calls fsync; power loss is out of scope, DESIGN §9)",
			"in a third of the runs a second client updates its own mailboxes (preferably in the same hash directories) concurrently, so crash images also show two operations in flight; each mailbox is updated by one client only",
		},
	})
}

// c11Client is one sequence of operations on its own mailboxes.
type c11Client struct {
	name     string
	rig      *storeRig
	names    []string
	ops      []SOp
	befores  []*models.MailStore // model before op i
	afters   []*models.MailStore // model after op i
	cur      int                 // op in flight, or number of completed ops
	inflight bool
}

// stateAt returns the client's model when `done` operations had completed.
func (cl *c11Client) stateAt(done int) *models.MailStore {
	if done < len(cl.befores) {
		return cl.befores[done]
	}
	return cl.rig.model
}

type c11Point struct {
	fs      *simfs.FS
	by      int // client whose file-system step this is
	step    string
	path    string
	partial int
	cur     []int
	infl    []bool
}

func runC11(c *Ctx, cs Case) {
	h := cs.(*storeHistory)
	first := newStoreRig(c, h.Cfgs[0])
	clients := []*c11Client{{name: "client0", rig: first, names: h.Names, ops: h.Ops}}
	if len(h.Ops2) > 0 {
		r2 := &storeRig{c: c, cfg: first.cfg, store: first.store, eh: first.eh, ids: map[string][]string{}, tag: first.tag,
			model: models.NewMailStore(first.cfg.Cap, 0)}
		clients = append(clients, &c11Client{name: "client1", rig: r2, names: h.Names2, ops: h.Ops2})
	}
	live := simfs.Installed(c.Sim)
	var points []c11Point
	armed := false
	live.BeforeStep = func(f *simfs.FS, st simfs.Step) {
		if !armed {
			return
		}
		by := -1
		if t := simrt.Current(); t != nil {
			for i, cl := range clients {
				if cl.name == t.Name {
					by = i
				}
			}
		}
		if by < 0 || !clients[by].inflight {
			return
		}
		mk := func(fsys *simfs.FS, partial int) {
			p := c11Point{fs: fsys, by: by, step: st.Kind, path: st.Path, partial: partial}
			for _, cl := range clients {
				p.cur = append(p.cur, cl.cur)
				p.infl = append(p.infl, cl.inflight)
			}
			points = append(points, p)
		}
		mk(f.Snapshot(), -1)
		if strings.HasPrefix(st.Kind, "write@") && len(st.Data) > 1 {
			var off int64
			fmt.Sscanf(st.Kind, "write@%d", &off)
			for _, n := range uniqInts(1, len(st.Data)/2, len(st.Data)-1) {
				sn := f.Snapshot()
				sn.AppendRaw(st.Path, off, st.Data[:n])
				mk(sn, n)
			}
		}
	}
	armed = true
	var tasks []*simrt.Task
	for _, cl := range clients {
		cl := cl
		tasks = append(tasks, simrt.Go(cl.name, func() {
			for i, o := range cl.ops {
				cl.befores = append(cl.befores, cl.rig.model.Clone())
				cl.cur, cl.inflight = i, true
				cl.rig.apply(i, o)
				cl.inflight = false
				cl.cur = i + 1
				cl.afters = append(cl.afters, cl.rig.model.Clone())
				if c.Failed() {
					return
				}
			}
		}))
	}
	for _, t := range tasks {
		c.Main.Join(t)
	}
	armed = false
	live.BeforeStep = nil
	if c.Failed() {
		return
	}
	c.Stat("probe.crash_points", int64(len(points)))
	both := 0
	// verify every crash image
	for pi, p := range points {
		stepper := clients[p.by]
		op := stepper.ops[p.cur[p.by]]
		site := stepSite(p.step, p.path)
		c.Stat("fault.crash@"+site, 1)
		if p.partial >= 0 {
			c.Stat("fault.crash_partial_write", 1)
		}
		nInfl := 0
		for _, b := range p.infl {
			if b {
				nInfl++
			}
		}
		if nInfl > 1 {
			both++
		}
		simfs.Install(c.Sim, p.fs)
		st, err := openStore(first.cfg, extension.NewHost())
		desc := fmt.Sprintf("crash point %d (%s during op %d %s, at step %s %s, partial=%d, %d operations in flight)", pi, stepper.name, p.cur[p.by], op, p.step, p.path, p.partial, nInfl)
		if err != nil {
			c.Failf("file/crash@"+site+":reopen-error", "%s: file.New: %v", desc, err)
			return
		}
		if err := st.VisitMailboxes(func(ms []storage.Message) bool { return true }); err != nil {
			c.Failf("file/crash@"+site+":VisitMailboxes-error", "%s: %v", desc, err)
			return
		}
		var survived []*models.Msg // what the restarted store showed in the affected mailbox
		for ci, cl := range clients {
			before := cl.stateAt(p.cur[ci])
			var after *models.MailStore
			touched := ""
			if p.infl[ci] {
				after = cl.afters[p.cur[ci]]
				touched = cl.ops[p.cur[ci]].Mailbox
			}
			for _, name := range cl.names {
				got, err := st.GetMessages(name)
				if err != nil {
					c.Failf("file/crash@"+site+":GetMessages-error", "%s: mailbox %q: %v", desc, name, err)
					return
				}
				dB := cmpList(got, before.List(name), true)
				if name != touched {
					if dB != "" {
						c.Failf("file/crash@"+site+":other-mailbox-changed", "%s: mailbox %q, not touched by an operation in flight: %s", desc, name, dB)
						return
					}
					continue
				}
				dA := cmpList(got, after.List(name), true)
				if dB != "" && dA != "" {
					c.Failf("file/crash@"+site+":neither-before-nor-after("+cl.ops[p.cur[ci]].Kind+capTag(first.cfg)+")",
						"%s: mailbox %q is neither the state before the operation (%s) nor after it (%s)", desc, name, dB, dA)
					return
				}
				if ci == p.by {
					if dB == "" {
						survived = before.List(name)
					} else {
						survived = after.List(name)
					}
				}
			}
		}
		// the affected mailbox accepts new mail
		m := &models.Msg{Mailbox: op.Mailbox, Subject: "after crash", From: people[0], Date: baseDate, Body: []byte("post-crash delivery\r\n")}
		id, err := st.AddMessage(delivery(m))
		if err != nil {
			c.Failf("file/crash@"+site+":delivery-after-crash-error", "%s: AddMessage: %v", desc, err)
			return
		}
		got, err := st.GetMessages(op.Mailbox)
		if err != nil || len(got) == 0 || got[len(got)-1].ID() != id {
			c.Failf("file/crash@"+site+":delivery-after-crash-not-listed", "%s: new message %q not listed last: %v err=%v", desc, id, idsOf(got), err)
			return
		}
		// ... and the mail that survived the crash is still there, unchanged
		m.ID = id
		want := append(append([]*models.Msg{}, survived...), m)
		if first.cfg.Cap > 0 && len(want) > first.cfg.Cap {
			want = want[len(want)-first.cfg.Cap:]
		}
		if d := cmpList(got, want, true); d != "" {
			c.Failf("file/crash@"+site+":delivery-after-crash-damages-mailbox", "%s: after the new delivery (id %q) to %q: %s", desc, id, op.Mailbox, d)
			return
		}
		c.Distinct("crash_states", op.Kind, site, p.partial >= 0, nInfl, stepper.stateAt(p.cur[p.by]).Hash())
		c.NonTrivial(op.Kind, site, p.partial >= 0, nInfl, stepper.stateAt(p.cur[p.by]).Hash())
	}
	c.Stat("probe.crash_points_with_two_operations_in_flight", int64(both))
	simfs.Install(c.Sim, live)
}

func capTag(cfg StoreCfg) string {
	if cfg.Cap > 0 {
		return ",cap"
	}
	return ""
}

func uniqInts(l ...int) []int {
	seen := map[int]bool{}
	var out []int
	for _, v := range l {
		if v > 0 && !seen[v] {
			seen[v] = true
			out = append(out, v)
		}
	}
	return out
}

var _ = simrt.Logf
