package harness

import (
	"fmt"
	"strings"

	"github.com/inbucket/inbucket/v3/pkg/extension"
	"github.com/inbucket/inbucket/v3/pkg/storage"
	"github.com/inbucket/inbucket/v3/vsim/models"
	"github.com/inbucket/inbucket/v3/vsim/simfs"
	"github.com/inbucket/inbucket/v3/vsim/simrt"
)

// C11: a crash (process death) at any file-system step of a file-store update
// leaves every mailbox readable; the interrupted operation happened completely
// or not at all; the mailbox accepts new mail afterwards.

type crashPoint struct {
	fs      *simfs.FS
	op      int
	step    string // kind of the step about to execute
	path    string
	partial int // bytes of the write applied (-1 = none: state before the step)
}

func stepSite(kind, path string) string {
	base := path
	if i := strings.LastIndex(path, "/"); i >= 0 {
		base = path[i+1:]
	}
	what := "dir"
	switch {
	case base == "index.gob":
		what = "index"
	case strings.HasSuffix(base, ".raw"):
		what = "raw"
	}
	if i := strings.Index(kind, "@"); i >= 0 {
		kind = kind[:i]
	}
	return kind + " " + what
}

var c11Kinds = []string{"add", "add", "add", "add", "seen", "seen", "remove", "remove", "purge", "list"}

func init() {
	register(&Prop{
		ID:    "C11",
		Level: "fault_enumeration",
		Gen: func(w *simrt.Choices, tier string, avoid map[string]bool) Case {
			cfg := StoreCfg{Backend: "file", Cap: []int{0, 0, 1, 2, 3}[w.Choose(5)]}
			h := &storeHistory{Cfgs: []StoreCfg{cfg}}
			h.Names = pickNames(w, 1+w.Choose(3), false)
			n := 5 + w.Choose(21)
			h.Ops = genSOps(w, h.Names, n, 9000, c11Kinds, map[string]bool{"missing-id": true})
			return h
		},
		Config:            func(cs Case) simrt.Config { return simrt.Config{NoJumps: true} },
		Run:               runC11,
		BudgetIsViolation: true,
		QuickRuns:         1500,
		ThoroughRuns:      40000,
		Rule: "seeded histories of 5-25 mutating operations (deliver, mark-seen, remove, purge; cap in {0,1,2,3}) on the real file store over " +
			"the simulated disk; at EVERY file-system mutation step of every operation (mkdir, create/truncate, each write call, remove, rmdir) " +
			"and for write steps at partial lengths (0, 1, half, len-1 of the bytes of that call) a crash image is taken (completed calls " +
			"persist, the call in progress is absent or partially applied); every image is reopened with file.New and checked: all mailboxes " +
			"list and visit without error, untouched mailboxes equal the model, the updated mailbox equals the model before or after the " +
			"interrupted operation with full content, and a new delivery to it succeeds. Crash points are exhaustive per history; histories " +
			"are sampled. non-trivial = crash image inside an operation; distinct by (operation kind, step site, partial?, model state)",
		Real: []string{"pkg/storage/file"},
		Stub: []string{"disk (simfs) with crash images: process-death model, no lost or reordered completed calls"},
		Assumptions: []string{
			"crash = process death: every completed system call persists (Inbucket never calls fsync; power loss is out of scope, DESIGN §9)",
			"one client at a time (crashes while two mailboxes are mid-update are covered by C09-style schedules only in the thorough tier)",
		},
	})
}

func runC11(c *Ctx, cs Case) {
	h := cs.(*storeHistory)
	r := newStoreRig(c, h.Cfgs[0])
	live := simfs.Installed(c.Sim)
	type opRec struct {
		before, after *models.MailStore
		op            SOp
	}
	var recs []opRec
	var points []crashPoint
	curOp := -1
	live.BeforeStep = func(f *simfs.FS, st simfs.Step) {
		if curOp < 0 {
			return
		}
		points = append(points, crashPoint{fs: f.Snapshot(), op: curOp, step: st.Kind, path: st.Path, partial: -1})
		if strings.HasPrefix(st.Kind, "write@") && len(st.Data) > 1 {
			var off int64
			fmt.Sscanf(st.Kind, "write@%d", &off)
			for _, n := range uniqInts(1, len(st.Data)/2, len(st.Data)-1) {
				sn := f.Snapshot()
				sn.AppendRaw(st.Path, off, st.Data[:n])
				points = append(points, crashPoint{fs: sn, op: curOp, step: st.Kind, path: st.Path, partial: n})
			}
		}
	}
	for i, o := range h.Ops {
		before := r.model.Clone()
		curOp = i
		r.apply(i, o)
		curOp = -1
		if c.Failed() {
			return
		}
		recs = append(recs, opRec{before: before, after: r.model.Clone(), op: o})
	}
	live.BeforeStep = nil
	c.Stat("probe.crash_points", int64(len(points)))
	// verify every crash image
	for pi, p := range points {
		rec := recs[p.op]
		site := stepSite(p.step, p.path)
		c.Stat("fault.crash@"+site, 1)
		if p.partial >= 0 {
			c.Stat("fault.crash_partial_write", 1)
		}
		simfs.Install(c.Sim, p.fs)
		st, err := openStore(r.cfg, extension.NewHost())
		if err != nil {
			c.Failf("file/crash@"+site+":reopen-error", "crash point %d (op %d %s, before step %s %s, partial=%d): file.New: %v", pi, p.op, rec.op, p.step, p.path, p.partial, err)
			return
		}
		desc := fmt.Sprintf("crash point %d (during op %d %s, at step %s %s, partial=%d)", pi, p.op, rec.op, p.step, p.path, p.partial)
		if err := st.VisitMailboxes(func(ms []storage.Message) bool { return true }); err != nil {
			c.Failf("file/crash@"+site+":VisitMailboxes-error", "%s: %v", desc, err)
			return
		}
		for _, name := range h.Names {
			got, err := st.GetMessages(name)
			if err != nil {
				c.Failf("file/crash@"+site+":GetMessages-error", "%s: mailbox %q: %v", desc, name, err)
				return
			}
			if name != rec.op.Mailbox {
				if d := cmpList(got, rec.before.List(name), true); d != "" {
					c.Failf("file/crash@"+site+":other-mailbox-changed", "%s: untouched mailbox %q: %s", desc, name, d)
					return
				}
				continue
			}
			dB := cmpList(got, rec.before.List(name), true)
			dA := cmpList(got, rec.after.List(name), true)
			if dB != "" && dA != "" {
				c.Failf("file/crash@"+site+":neither-before-nor-after("+rec.op.Kind+capTag(r.cfg)+")",
					"%s: mailbox %q is neither the state before the operation (%s) nor after it (%s)", desc, name, dB, dA)
				return
			}
		}
		// the affected mailbox accepts new mail
		m := &models.Msg{Mailbox: rec.op.Mailbox, Subject: "after crash", From: people[0], Date: baseDate, Body: []byte("post-crash delivery\r\n")}
		id, err := st.AddMessage(delivery(m))
		if err != nil {
			c.Failf("file/crash@"+site+":delivery-after-crash-error", "%s: AddMessage: %v", desc, err)
			return
		}
		got, err := st.GetMessages(rec.op.Mailbox)
		if err != nil || len(got) == 0 || got[len(got)-1].ID() != id {
			c.Failf("file/crash@"+site+":delivery-after-crash-not-listed", "%s: new message %q not listed last: %v err=%v", desc, id, idsOf(got), err)
			return
		}
		c.Distinct("crash_states", rec.op.Kind, site, p.partial >= 0, rec.before.Hash())
		c.NonTrivial(rec.op.Kind, site, p.partial >= 0, rec.before.Hash())
	}
	simfs.Install(c.Sim, live)
}

func capTag(cfg StoreCfg) string {
	if cfg.Cap > 0 {
		return ",cap"
	}
	return ""
}

func uniqInts(l ...int) []int {
	seen := map[int]bool{}
	var out []int
	for _, v := range l {
		if v > 0 && !seen[v] {
			seen[v] = true
			out = append(out, v)
		}
	}
	return out
}

var _ = simrt.Logf
