package harness

import (
	"os"
	"regexp"
	"sort"
	"strings"
)

// ThreadSanitizer writes its reports to $GORACE log_path.<pid>; the worker
// reads what a run appended to attribute a report to that run.
func raceLogPath() string {
	for _, f := range strings.Fields(os.Getenv("GORACE")) {
		if strings.HasPrefix(f, "log_path=") {
			return strings.TrimPrefix(f, "log_path=") + "." + itoaPid()
		}
	}
	return ""
}

func itoaPid() string {
	n := os.Getpid()
	if n == 0 {
		return "0"
	}
	var b []byte
	for n > 0 {
		b = append([]byte{byte('0' + n%10)}, b...)
		n /= 10
	}
	return string(b)
}

func raceLogSize() int64 {
	p := raceLogPath()
	if p == "" {
		return 0
	}
	fi, err := os.Stat(p)
	if err != nil {
		return 0
	}
	return fi.Size()
}

var raceFrameRe = regexp.MustCompile(`github\.com/inbucket/inbucket/v3/pkg/([^\s(]+(?:\([^)]*\))?[^\s(]*)\(`)

// raceReport returns a stable class (one Inbucket frame of each of the two
// conflicting accesses) and the report text.  By default a report counts only
// if, for both accesses, the innermost frame that belongs to this module is
// Inbucket code (pkg/...): the access was made by Inbucket or by library code
// on its behalf (bytes.Buffer, zerolog, ...), not by the harness, a seam or
// the simulator.  With stackPkg set
// (e.g. "extension/luahost") it counts if both access stacks pass through
// that Inbucket package, whatever library code is innermost: two tasks inside
// the same library object which nothing in Inbucket orders.
func raceReport(from int64, stackPkg string) (class, detail string) {
	p := raceLogPath()
	if p == "" {
		return "unattributed", "(no GORACE log_path configured)"
	}
	b, err := os.ReadFile(p)
	if err != nil || int64(len(b)) <= from {
		return "unattributed", "(race log not readable)"
	}
	text := string(b[from:])
	// one report = "WARNING: DATA RACE" ... "=================="; in each, the two
	// access blocks start with "Write at"/"Read at"/"Previous write at"/"Previous read at"
	// and list their frames (function line, then file line) up to an empty line.
	var classes []string
	for _, rep := range strings.Split(text, "WARNING: DATA RACE") {
		lines := strings.Split(rep, "\n")
		var stacks [][]string
		for i := 0; i < len(lines); i++ {
			t := strings.TrimSpace(lines[i])
			if strings.HasPrefix(t, "Write at") || strings.HasPrefix(t, "Read at") || strings.HasPrefix(t, "Previous write at") ||
				strings.HasPrefix(t, "Previous read at") {
				var st []string
				for j := i + 1; j < len(lines) && strings.TrimSpace(lines[j]) != ""; j++ {
					st = append(st, strings.TrimSpace(lines[j]))
				}
				stacks = append(stacks, st)
			}
		}
		if len(stacks) != 2 {
			continue
		}
		var fn []string
		for _, st := range stacks {
			if len(st) == 0 {
				continue
			}
			if stackPkg == "" {
				// the innermost frame that belongs to this module (skipping the runtime,
				// the standard library and dependencies the access was made through)
				// must be Inbucket code, not the harness or the simulator
				for k := 0; k < len(st); k += 2 { // function line, file line
					if !strings.Contains(st[k], "github.com/inbucket/inbucket/v3/") {
						continue
					}
					if m := raceFrameRe.FindStringSubmatch(st[k]); m != nil {
						fn = append(fn, m[1])
					}
					break
				}
				continue
			}
			for _, f := range st {
				if m := raceFrameRe.FindStringSubmatch(f); m != nil && strings.HasPrefix(m[1], stackPkg) {
					fn = append(fn, m[1])
					break
				}
			}
		}
		if len(fn) == 2 {
			sort.Strings(fn)
			classes = append(classes, strings.Join(fn, "|"))
			if detail == "" {
				detail = clipText("WARNING: DATA RACE"+rep, 3500)
			}
		}
	}
	if len(classes) == 0 {
		return "", ""
	}
	sort.Strings(classes)
	return classes[0], detail
}

func clipText(s string, n int) string {
	if len(s) > n {
		return s[:n] + "..."
	}
	return s
}
