package harness

import (
	"os"
	"regexp"
	"sort"
	"strings"
)

// ThreadSanitizer writes its reports to $GORACE log_path.<pid>; the worker
// reads what a run appended to attribute a report to that run.
func raceLogPath() string {
	for _, f := range strings.Fields(os.Getenv("GORACE")) {
		if strings.HasPrefix(f, "log_path=") {
			return strings.TrimPrefix(f, "log_path=") + "." + itoaPid()
		}
	}
	return ""
}

func itoaPid() string {
	n := os.Getpid()
	if n == 0 {
		return "0"
	}
	var b []byte
	for n > 0 {
		b = append([]byte{byte('0' + n%10)}, b...)
		n /= 10
	}
	return string(b)
}

func raceLogSize() int64 {
	p := raceLogPath()
	if p == "" {
		return 0
	}
	fi, err := os.Stat(p)
	if err != nil {
		return 0
	}
	return fi.Size()
}

var raceFrameRe = regexp.MustCompile(`github\.com/inbucket/inbucket/v3/pkg/([^\s(]+(?:\([^)]*\))?[^\s(]*)\(`)

// raceReport returns a stable class (the innermost Inbucket frame of each of
// the two conflicting accesses) and the report text.
func raceReport(from int64) (class, detail string) {
	p := raceLogPath()
	if p == "" {
		return "unattributed", "(no GORACE log_path configured)"
	}
	b, err := os.ReadFile(p)
	if err != nil || int64(len(b)) <= from {
		return "unattributed", "(race log not readable)"
	}
	text := string(b[from:])
	// one report = "WARNING: DATA RACE" ... "=================="; in each, the two
	// access blocks start with "Write at"/"Read at"/"Previous write at"/"Previous read at";
	// the line after the block header is the innermost frame of that access.
	var classes []string
	for _, rep := range strings.Split(text, "WARNING: DATA RACE") {
		lines := strings.Split(rep, "\n")
		var frames []string
		for i, ln := range lines {
			t := strings.TrimSpace(ln)
			if (strings.HasPrefix(t, "Write at") || strings.HasPrefix(t, "Read at") || strings.HasPrefix(t, "Previous write at") ||
				strings.HasPrefix(t, "Previous read at")) && i+1 < len(lines) {
				frames = append(frames, strings.TrimSpace(lines[i+1]))
			}
		}
		if len(frames) != 2 {
			continue
		}
		var fn []string
		for _, f := range frames {
			if m := raceFrameRe.FindStringSubmatch(f); m != nil {
				fn = append(fn, m[1])
			}
		}
		if len(fn) == 2 { // both conflicting accesses are in Inbucket code
			sort.Strings(fn)
			classes = append(classes, strings.Join(fn, "|"))
			if detail == "" {
				detail = clipText("WARNING: DATA RACE"+rep, 3500)
			}
		}
	}
	if len(classes) == 0 {
		return "", ""
	}
	sort.Strings(classes)
	return classes[0], detail
}

func clipText(s string, n int) string {
	if len(s) > n {
		return s[:n] + "..."
	}
	return s
}
