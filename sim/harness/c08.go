package harness

import (
	"bytes"
	"fmt"

	"github.com/inbucket/inbucket/v3/vsim/models"
	"github.com/inbucket/inbucket/v3/vsim/simrt"
)

// C08: mailbox cap and store size limit evict oldest-first and only what is
// necessary; accounting never drifts.

func genLimitedCfg(w *simrt.Choices) StoreCfg {
	cfg := StoreCfg{Backend: "mem"}
	if w.Choose(4) == 3 {
		cfg.Backend = "file"
	}
	cfg.Cap = []int{0, 1, 2, 3, 5}[w.Choose(5)]
	if cfg.Backend == "mem" {
		cfg.MaxKB = []int{0, 1, 2, 4, 8}[w.Choose(5)]
	}
	if cfg.Cap == 0 && cfg.MaxKB == 0 {
		if cfg.Backend == "mem" {
			cfg.MaxKB = 2
		} else {
			cfg.Cap = 2
		}
	}
	return cfg
}

func genSizedOps(w *simrt.Choices, names []string, n int, cfg StoreCfg, kinds []string) []SOp {
	limit := cfg.MaxKB * 1024
	if limit == 0 {
		limit = 2048
	}
	sizes := []int{0, 1, 100, limit / 4, limit / 3, limit / 2, limit - 1, limit, limit + 1, limit * 3 / 2}
	ops := genSOps(w, names, n, 1<<20, kinds, map[string]bool{"missing-id": true})
	for i := range ops {
		if ops[i].Kind == "add" {
			sz := sizes[w.Choose(len(sizes))]
			ops[i].Msg.Body = genBody(w, ops[i].Msg.Token, sz)
			ops[i].Msg.To = nil
		}
	}
	return ops
}

var c08Kinds = []string{"add", "add", "add", "add", "add", "add", "remove", "remove", "purge", "list", "get"}

// checkLimits compares every mailbox with the eviction model and checks the
// stated invariants directly as well.
func (r *storeRig) checkLimits(i int, o SOp, names []string) {
	c := r.c
	var total int64
	for _, n := range names {
		got, err := r.store.GetMessages(n)
		if err != nil {
			c.Failf(r.tag+"/GetMessages->error", "after op %d %s: %q: %v", i, o, n, err)
			return
		}
		if r.cfg.Cap > 0 && len(got) > r.cfg.Cap {
			c.Failf(r.tagLim()+"/cap-exceeded", "after op %d %s: mailbox %q lists %d messages, cap is %d", i, o, n, len(got), r.cfg.Cap)
			return
		}
		for _, m := range got {
			total += m.Size()
		}
		if d := cmpList(got, r.model.List(n), false); d != "" {
			c.Failf(r.tagLim()+"/survivors-mismatch", "after op %d %s: mailbox %q: %s", i, o, n, d)
			return
		}
	}
	if r.cfg.MaxKB > 0 && total > int64(r.cfg.MaxKB)*1024 {
		c.Failf(r.tagLim()+"/size-limit-exceeded", "after op %d %s: %d bytes stored, limit %d", i, o, total, r.cfg.MaxKB*1024)
	}
}

func (r *storeRig) tagLim() string {
	t := r.tag
	if r.cfg.Cap > 0 {
		t += "+cap"
	}
	if r.cfg.MaxKB > 0 {
		t += "+maxkb"
	}
	return t
}

func init() {
	register(&Prop{
		ID:    "C08",
		Level: "exploration",
		Gen: func(w *simrt.Choices, tier string, avoid map[string]bool) Case {
			cfg := genLimitedCfg(w)
			h := &storeHistory{Cfgs: []StoreCfg{cfg}}
			h.Names = pickNames(w, 1+w.Choose(4), false)
			n := 20 + w.Choose(100)
			if tier == "thorough" {
				n = 20 + w.Choose(280)
			}
			h.Ops = genSizedOps(w, h.Names, n, cfg, c08Kinds)
			return h
		},
		Config: func(cs Case) simrt.Config { return simrt.Config{NoJumps: true} },
		Run: func(c *Ctx, cs Case) {
			h := cs.(*storeHistory)
			r := newStoreRig(c, h.Cfgs[0])
			evictions := 0
			for i, o := range h.Ops {
				before := len(r.model.List(o.Mailbox))
				totalBefore := r.model.Total()
				r.apply(i, o)
				if c.Failed() {
					return
				}
				if o.Kind == "add" {
					if r.model.Total() < totalBefore+o.Msg.Size() || len(r.model.List(o.Mailbox)) <= before {
						evictions++
					}
					// a message that fits is retrievable immediately
					id := r.ids[o.Mailbox][len(r.ids[o.Mailbox])-1]
					if want := r.model.Get(o.Mailbox, id); want != nil {
						got, err := r.store.GetMessage(o.Mailbox, id)
						if err != nil || got == nil {
							c.Failf(r.tagLim()+"/fresh-message-missing", "op %d %s: delivered id %q (%d bytes, fits) is not retrievable: msg=%v err=%v",
								i, o, id, o.Msg.Size(), got != nil, err)
							return
						}
					}
				}
				r.checkLimits(i, o, h.Names)
				if c.Failed() {
					return
				}
				c.Distinct("model_states", r.model.Hash())
			}
			// drift probe: the whole capacity is still usable
			if r.cfg.MaxKB > 0 {
				sz := 256
				k := r.cfg.MaxKB * 1024 / sz
				if r.cfg.Cap > 0 && k > r.cfg.Cap {
					k = r.cfg.Cap
				}
				box := "driftprobe"
				names := append(append([]string{}, h.Names...), box)
				for j := 0; j < k; j++ {
					m := &models.Msg{Mailbox: box, Token: fmt.Sprintf("probe%d", j), Subject: fmt.Sprintf("probe %d", j), Date: baseDate,
						From: people[0], Body: bytes.Repeat([]byte("p"), sz)}
					r.apply(len(h.Ops)+j, SOp{Kind: "add", Mailbox: box, Msg: m})
					if c.Failed() {
						return
					}
				}
				r.checkLimits(len(h.Ops)+k, SOp{Kind: "drift-probe", Mailbox: box}, names)
				got, _ := r.store.GetMessages(box)
				if len(got) != k {
					c.Failf(r.tagLim()+"/capacity-drift", "after the history, %d fresh %d-byte messages fit the limit but only %d are retrievable", k, sz, len(got))
				}
			}
			if evictions > 0 {
				c.Stat("probe.runs_with_eviction", 1)
				c.NonTrivial(r.model.Hash(), len(h.Ops), r.cfg.String())
			}
			c.Stat("probe.evictions", int64(evictions))
		},
		BudgetIsViolation: true,
		QuickRuns:         6000,
		ThoroughRuns:      120000,
		Rule: "seeded histories of 20-120 (thorough: -300) deliveries of sizes 0..1.5x limit interleaved with removes and purges on the real " +
			"memory store with cap in {0,1,2,3,5} x maxkb in {0,1,2,4,8} and the real file store with a cap; after every operation every " +
			"mailbox is compared with the eviction model (cap first, then globally oldest until the limit is met); the size enforcer " +
			"goroutine runs as a simulated task; non-trivial = at least one eviction happened, distinct by final model state",
		Real:        []string{"pkg/storage/mem (store, maxSizeEnforcer goroutine)", "pkg/storage/file"},
		Stub:        []string{"disk (simfs)", "scheduler (simrt)", "sync (simsync)"},
		Assumptions: []string{"one client; concurrent clients are C09", "eviction order across mailboxes = arrival order of deliveries"},
	})
}
