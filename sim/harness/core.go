// Package harness holds the per-property workloads, oracles and the worker
// loop.  It is compiled as a test binary (testing/synctest needs *testing.T)
// against the instrumented copy of Inbucket.
package harness

import (
	"fmt"
	"hash/fnv"
	"sort"
	"strings"
	"time"

	"github.com/inbucket/inbucket/v3/vsim/simrt"
)

// Violation is one oracle failure.  Class is a short stable string naming the
// property, the configuration kind and the failing observation; minimisation
// and the known-findings file work on classes.
type Violation struct {
	Class string `json:"class"`
	Msg   string `json:"msg"`
}

// Case is one generated workload.
type Case interface {
	// Describe renders the case for evidence samples and replay files.
	Describe() []string
}

// Prop is one property's check.
type Prop struct {
	ID string
	// Gen builds a case from the workload choice stream (outside the bubble).
	Gen func(w *simrt.Choices, tier string, avoid map[string]bool) Case
	// Run executes the case as the main task of a simulation.
	Run func(c *Ctx, cs Case)
	// Post, if set, runs after the simulation ended normally, OUTSIDE the
	// bubble (real clock, real goroutines allowed): history checkers.
	Post func(c *Ctx, cs Case)
	// Config returns the scheduler limits for the case (may be nil).
	Config func(cs Case) simrt.Config
	// RaceMode: the property is only meaningful in a binary built with -race;
	// RaceCompanion names the race-mode property a normal check also runs.
	RaceMode      bool
	RaceCompanion string
	// RaceStackPkg (race mode): count a report if both access stacks pass through
	// this package below pkg/ (default: both innermost frames are Inbucket code).
	RaceStackPkg string
	// EvalCounter, if set, names the counter that counts the cases this check evaluates
	// (e.g. crash images, several per run); evidence reports it as "evaluations" and the
	// number of runs separately.
	EvalCounter string
	// Companions are further properties (same binary) that the check of this
	// property also runs: other harnesses for clauses of the same statement.
	Companions []string
	// BudgetIsViolation: a run ending on a step/simtime budget is a wedge.
	BudgetIsViolation bool
	// Runs per tier.
	QuickRuns, ThoroughRuns int
	// Rule describes generation and what counts as distinct/non-trivial.
	Rule string
	// Level claimed: exploration | fault_enumeration.
	Level string
	// Stubs lists components that were stubbed / real (evidence).
	Real, Stub []string
	// Assumptions for the evidence file.
	Assumptions []string
}

var props = map[string]*Prop{}

func register(p *Prop) { props[p.ID] = p }

// Ctx is handed to Prop.Run.
type Ctx struct {
	Sim   *simrt.Sim
	Main  *simrt.Task
	Tier  string
	Avoid map[string]bool
	viol  *Violation
	st    *Stats
	tasks []*simrt.Task
	// set for Post
	post         bool
	schedHash    uint64
	inconclusive bool
}

// Failf records a violation (the first one wins) and keeps running; use
// Failed() to cut a run short.
func (c *Ctx) Failf(class, format string, a ...interface{}) {
	if c.viol == nil {
		c.viol = &Violation{Class: c.st.prop + "/" + class, Msg: fmt.Sprintf(format, a...)}
		if !c.post {
			c.Sim.Logf("VIOLATION %s: %s", c.viol.Class, c.viol.Msg)
		}
	}
}

// Failed reports whether a violation was recorded.
func (c *Ctx) Failed() bool { return c.viol != nil }

// Logf logs to the run's event log.
func (c *Ctx) Logf(format string, a ...interface{}) {
	if !c.post {
		c.Sim.Logf(format, a...)
	}
}

// Stat adds to an evidence counter.
func (c *Ctx) Stat(name string, d int64) { c.st.Counters[name] += d }

// Distinct records a member of a named set whose cardinality is reported.
func (c *Ctx) Distinct(set string, parts ...interface{}) {
	h := fnv.New64a()
	fmt.Fprint(h, parts...)
	m := c.st.Sets[set]
	if m == nil {
		m = map[uint64]struct{}{}
		c.st.Sets[set] = m
	}
	m[h.Sum64()] = struct{}{}
}

// NonTrivial marks the current run as non-trivial (counted once per distinct key).
func (c *Ctx) NonTrivial(parts ...interface{}) { c.Distinct("nontrivial", parts...) }

// Go starts a harness task.
func (c *Ctx) Go(name string, f func()) *simrt.Task {
	t := simrt.Go(name, f)
	c.tasks = append(c.tasks, t)
	return t
}

// JoinAll waits for every task started with Go.
func (c *Ctx) JoinAll() {
	for _, t := range c.tasks {
		c.Main.Join(t)
	}
}

// Choose draws from the run's schedule/fault stream.
func (c *Ctx) Choose(n int) int { return c.Sim.S.Choose(n) }

// Stats aggregates evidence over the runs of one worker.
type Stats struct {
	prop       string
	Runs       int                            `json:"runs"`
	Steps      int64                          `json:"steps"`
	SimTimeNs  int64                          `json:"sim_time_ns"`
	Decisions2 int64                          `json:"decisions_ge2_ready"`
	Counters   map[string]int64               `json:"counters"`
	Sets       map[string]map[uint64]struct{} `json:"-"`
	SetsOut    map[string][]uint64            `json:"sets"`
	Samples    [][]string                     `json:"samples"`
	Verdicts   map[string]int                 `json:"verdicts"`
	Inconcl    int                            `json:"inconclusive"`
	WallNs     int64                          `json:"wall_ns"`
}

func newStats(prop string) *Stats {
	return &Stats{prop: prop, Counters: map[string]int64{}, Sets: map[string]map[uint64]struct{}{}, Verdicts: map[string]int{}}
}

func (s *Stats) finish() {
	s.SetsOut = map[string][]uint64{}
	for k, m := range s.Sets {
		l := make([]uint64, 0, len(m))
		for h := range m {
			l = append(l, h)
		}
		sort.Slice(l, func(i, j int) bool { return l[i] < l[j] })
		s.SetsOut[k] = l
	}
}

// crashClass derives a stable class from a panic message and stack: the
// message (numbers and addresses normalised) and the innermost Inbucket frame.
func crashClass(msg, stack string) string {
	fn := "?"
	for _, ln := range strings.Split(stack, "\n") {
		if strings.HasPrefix(ln, "github.com/inbucket/inbucket/v3/pkg/") {
			f := strings.TrimPrefix(ln, "github.com/inbucket/inbucket/v3/pkg/")
			if i := strings.LastIndex(f, "("); i > 0 {
				f = f[:i]
			}
			fn = f
			break
		}
	}
	return "crash:" + normMsg(msg) + "@" + fn
}

func normMsg(m string) string {
	var b strings.Builder
	prevDigit := false
	for _, r := range m {
		if r >= '0' && r <= '9' {
			if !prevDigit {
				b.WriteByte('N')
			}
			prevDigit = true
			continue
		}
		prevDigit = false
		if r == '\n' {
			break
		}
		b.WriteRune(r)
	}
	s := b.String()
	if len(s) > 100 {
		s = s[:100]
	}
	return s
}

// Outcome of one run.
type Outcome struct {
	Viol      *Violation
	Inconcl   bool
	Res       *simrt.Result
	W         []uint32
	Case      Case
	WallNs    int64
	SimTimeNs int64
}

func mixSeed(seed uint64, run int) uint64 {
	z := seed*0x9E3779B97F4A7C15 + uint64(run)*0xD1B54A32D192ED03 + 0x632BE59BD9B4E019
	z = (z ^ (z >> 30)) * 0xBF58476D1CE4E5B9
	z = (z ^ (z >> 27)) * 0x94D049BB133111EB
	return z ^ (z >> 31)
}

var _ = time.Now
