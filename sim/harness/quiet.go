package harness

import (
	"github.com/rs/zerolog"
	"github.com/rs/zerolog/log"
)

func init() {
	// Inbucket logs through zerolog's global logger; discard it (output is
	// not an observable any property talks about).
	zerolog.SetGlobalLevel(zerolog.Disabled)
	log.Logger = zerolog.Nop()
}
