package harness

import (
	"bufio"
	"context"
	"fmt"
	"strings"
	"time"

	"github.com/inbucket/inbucket/v3/pkg/config"
	"github.com/inbucket/inbucket/v3/pkg/extension"
	"github.com/inbucket/inbucket/v3/pkg/extension/event"
	"github.com/inbucket/inbucket/v3/pkg/server"
	"github.com/inbucket/inbucket/v3/pkg/server/web"
	"github.com/inbucket/inbucket/v3/pkg/storage"
	"github.com/inbucket/inbucket/v3/pkg/storage/file"
	"github.com/inbucket/inbucket/v3/pkg/storage/mem"
	"github.com/inbucket/inbucket/v3/vsim/models"
	"github.com/inbucket/inbucket/v3/vsim/simfs"
	"github.com/inbucket/inbucket/v3/vsim/simnet"
	"github.com/inbucket/inbucket/v3/vsim/simrt"
)

// C19: shutdown is graceful - open sessions finish, nothing new starts,
// waiting ends.

type c19Session struct {
	Proto string // smtp | pop3
	Park  string // smtp: connect greet mail rcpt data-half ; pop3: connect login dele
	Delay int    // simulated ms the client waits after cancel before it continues
}

type c19Case struct {
	Backend   string
	Sessions  []c19Session
	LateDials int
	Retention bool // retention period short enough that a scan may be running at cancel
	CancelAt  time.Duration
	Net       simnet.Profile
	// BusyHub: when shutdown is requested the hub is inside a slow listener, its
	// queue is full and further callers are waiting to hand it events.
	BusyHub bool
	// Damaged (file back-end): the store contains one mailbox whose index file is garbage (bit rot,
	// a manual edit), in the same lock bucket as the first session's mailbox.  Retention scans trip
	// over it; that must not keep the sessions of other mailboxes from finishing.
	Damaged bool
}

func (k *c19Case) Describe() []string {
	l := []string{fmt.Sprintf("backend=%s retention=%v cancelAt=%v lateDials=%d busyHub=%v damagedMailbox=%v %s", k.Backend, k.Retention, k.CancelAt, k.LateDials, k.BusyHub, k.Damaged, profileString(k.Net))}
	for i, s := range k.Sessions {
		l = append(l, fmt.Sprintf("session%d %s parked at %s, continues %dms after cancel", i, s.Proto, s.Park, s.Delay))
	}
	return l
}

func genC19(w *simrt.Choices, tier string, avoid map[string]bool) Case {
	k := &c19Case{Backend: []string{"memory", "file"}[w.Choose(2)], Net: netProfile(w)}
	k.Net.MaxDelay = []time.Duration{0, 3 * time.Millisecond}[w.Choose(2)]
	for i, n := 0, w.Choose(5); i < n; i++ {
		s := c19Session{Delay: []int{0, 1, 200, 3000}[w.Choose(4)]}
		if w.Choose(3) == 0 {
			s.Proto = "pop3"
			s.Park = []string{"connect", "login", "dele", "late"}[w.Choose(4)]
		} else {
			s.Proto = "smtp"
			s.Park = []string{"connect", "greet", "mail", "rcpt", "data-half", "late", "late"}[w.Choose(7)]
		}
		if avoid["post-cancel-delivery"] && s.Proto == "smtp" {
			s.Park = "connect-idle"
		}
		k.Sessions = append(k.Sessions, s)
	}
	k.LateDials = w.Choose(3)
	k.Retention = w.Choose(2) == 0
	k.CancelAt = []time.Duration{0, 10 * time.Millisecond, 59 * time.Second, 61 * time.Second, 62 * time.Second}[w.Choose(5)]
	k.BusyHub = w.Choose(4) == 1
	k.Damaged = k.Backend == "file" && w.Choose(3) == 0
	return k
}

// c19SlowListener is a hub listener that takes its time: Receive parks the
// hub's goroutine until the harness releases it.
type c19SlowListener struct {
	sim      *simrt.Sim
	released bool
	inside   *simrt.Task
}

func (l *c19SlowListener) Receive(msg event.MessageMetadata) error {
	if !l.released {
		l.inside = simrt.Current()
		l.inside.Block("slow hub listener")
		l.inside = nil
	}
	return nil
}

func (l *c19SlowListener) Delete(mailbox, id string) error { return nil }

func (l *c19SlowListener) release() {
	l.released = true
	if l.inside != nil {
		l.sim.MakeReady(l.inside)
	}
}

type c19Client struct {
	early    bool // the server had accepted the connection before shutdown was requested
	conn     *simnet.Conn
	task     *simrt.Task
	spec     c19Session
	name     string
	accepted bool // dial succeeded before cancel
	parked   bool
	done     bool
	ok       bool   // script finished with normal replies
	problem  string // first abnormal observation
	token    string
	box      string
}

func runC19(c *Ctx, cs Case) {
	k := cs.(*c19Case)
	// capture the store FullAssembly creates (Services does not expose it)
	var theStore storage.Store
	storage.Constructors["file"] = func(cfg config.Storage, eh *extension.Host) (storage.Store, error) {
		file.VerifProcessRestart()
		st, err := file.New(cfg, eh)
		theStore = st
		return st, err
	}
	storage.Constructors["memory"] = func(cfg config.Storage, eh *extension.Host) (storage.Store, error) {
		st, err := mem.New(cfg, eh)
		theStore = st
		return st, err
	}
	if k.Backend == "file" {
		ensureFS(c.Sim)
	}
	simnet.Of(c.Sim).Profile = k.Net
	conf := baseRoot()
	conf.Lua.Path = ""
	conf.Web.Addr = "127.0.0.1:9000"
	conf.Web.MonitorHistory = 5
	conf.Storage.Type = k.Backend
	conf.Storage.Params = map[string]string{"path": filePath}
	conf.Storage.MailboxMsgCap = 0
	conf.Storage.RetentionSleep = 50 * time.Millisecond
	conf.Storage.RetentionPeriod = 0
	if k.Retention {
		conf.Storage.RetentionPeriod = 30 * time.Minute
	}
	if k.Damaged {
		// a mailbox whose name shares the lock bucket (first three hex digits of the hash) with box0
		want := mailboxHash("box0")[:3]
		name := ""
		for i := 0; i < 200000; i++ {
			if n := fmt.Sprintf("damaged%d", i); mailboxHash(n)[:3] == want {
				name = n
				break
			}
		}
		if name != "" {
			h := mailboxHash(name)
			dir := filePath + "/mail/" + h[:3] + "/" + h[:6] + "/" + h
			if err := simfs.MkdirAll(dir, 0o770); err != nil {
				panic(err)
			}
			if err := simfs.WriteFile(dir+"/index.gob", []byte("\x07\xff\x81not a gob stream at all"), 0o660); err != nil {
				panic(err)
			}
			c.Stat("fault.mailbox_with_damaged_index", 1)
		}
	}
	web.Router = web.NewRouter()
	svc, err := server.FullAssembly(conf)
	if err != nil {
		panic("harness: FullAssembly: " + err.Error())
	}
	ctx, cancel := context.WithCancel(context.Background())
	ready := false
	svc.Start(ctx, func() { ready = true })
	c.Main.Quiesce()
	if !ready {
		c.Failf("services-not-ready", "Services.Start: not all services reported ready")
		return
	}
	// mail for the POP3 sessions and for retention to look at
	seed := func(box string, n int) []string {
		var ids []string
		for i := 0; i < n; i++ {
			m := &models.Msg{Mailbox: box, Subject: fmt.Sprintf("%s-%d", box, i), From: people[1], Date: time.Now(), Body: []byte("seed mail\r\n")}
			// through the store the services use: deliver via SMTP would be slower; use the POP3 server's store
			id, err := theStore.AddMessage(delivery(m))
			if err != nil {
				panic(err)
			}
			ids = append(ids, id)
		}
		return ids
	}
	var clients []*c19Client
	popIDs := map[string][]string{}
	for i, s := range k.Sessions {
		cl := &c19Client{spec: s, name: fmt.Sprintf("%s%d", s.Proto, i), token: fmt.Sprintf("tok%d", i), box: fmt.Sprintf("box%d", i)}
		if s.Proto == "pop3" {
			popIDs[cl.box] = seed(cl.box, 3)
		}
		clients = append(clients, cl)
	}
	seed("oldmail", 2)

	canceled := false
	wakeLate := false
	for _, cl := range clients {
		cl := cl
		cl.task = c.Go(cl.name, func() { c19RunClient(c, cl, &canceled, &wakeLate) })
	}
	// let every session reach its parking state
	for i := 0; i < 200; i++ {
		c.Main.Quiesce()
		all := true
		for _, cl := range clients {
			if !cl.parked && !cl.done {
				all = false
			}
		}
		if all {
			break
		}
		simrt.Sleep(5 * time.Millisecond)
	}
	if k.CancelAt > 0 {
		simrt.Sleep(k.CancelAt)
	}
	var slow *c19SlowListener
	var feeders []*simrt.Task
	if k.BusyHub {
		slow = &c19SlowListener{sim: c.Sim}
		svc.MsgHub.AddListener(slow)
		c.Main.Quiesce()
		for f := 0; f < 3; f++ {
			f := f
			feeders = append(feeders, simrt.Go(fmt.Sprintf("hub-feeder%d", f), func() {
				for i := 0; i < 150; i++ {
					svc.MsgHub.Dispatch(event.MessageMetadata{Mailbox: "feeder", ID: fmt.Sprintf("f%d-%d", f, i), Subject: "burst", Date: time.Now()})
				}
			}))
		}
		c.Main.Quiesce()
		c.Stat("probe.shutdown_with_hub_busy_and_queue_full", 1)
	}
	// sessions that connect at the last moment: woken before cancel, the
	// seed decides how far they and the accept loop get before it
	for _, cl := range clients {
		if cl.spec.Park == "late" {
			wakeLate = true
			c.Sim.MakeReady(cl.task)
		}
	}
	for i, n := 0, c.Choose(6); i < n; i++ {
		c.Main.Yield("let late sessions connect")
	}
	for _, cl := range clients {
		cl.early = cl.conn != nil && cl.conn.PeerAccepted()
	}
	// ---- shutdown, as cmd/inbucket/main.go does it ----
	c.Logf("cancel")
	canceled = true
	cancel()
	for _, cl := range clients {
		c.Sim.MakeReady(cl.task)
	}
	c.Stat("fault.shutdown_requested", 1)
	smtpDrained, pop3Drained, joined := false, false, false
	var smtpDrainAt time.Time
	drainer := c.Go("main.go-drain", func() {
		svc.SMTPServer.Drain()
		smtpDrained = true
		smtpDrainAt = time.Now()
		// "after, and only after": no SMTP session accepted before cancel may still be running
		for _, cl := range clients {
			if cl.spec.Proto == "smtp" && cl.early && !cl.conn.PeerClosed() {
				c.Failf("smtp-drain-returned-early", "SMTPServer.Drain() returned while the server side of session %s (parked at %s) was still open", cl.name, cl.spec.Park)
			}
		}
		svc.POP3Server.Drain()
		pop3Drained = true
		for _, cl := range clients {
			if cl.spec.Proto == "pop3" && cl.early && !cl.conn.PeerClosed() {
				c.Failf("pop3-drain-returned-early", "POP3Server.Drain() returned while the server side of session %s (parked at %s) was still open", cl.name, cl.spec.Park)
			}
		}
		svc.RetentionScanner.Join()
		joined = true
	})
	if slow != nil {
		// the slow listener returns; whoever was waiting to hand the hub an event
		// must not be left waiting for a hub that has stopped
		slow.release()
		for _, f := range feeders {
			if !c.Main.JoinTimeout(f, time.Second) {
				c.Failf("hub-caller-left-waiting-after-shutdown", "%s was handing events to the hub when shutdown was requested and is still waiting one simulated second later", f.Name)
				return
			}
		}
	}
	// retention and hub stop within a simulated second
	joinT := c.Go("join-probe", func() { svc.RetentionScanner.Join() })
	if !c.Main.JoinTimeout(joinT, time.Second+time.Millisecond) {
		c.Failf("retention-blocks-shutdown", "RetentionScanner.Join() had not returned one simulated second after shutdown was requested")
		return
	}
	// nothing new starts
	for i := 0; i < k.LateDials; i++ {
		for _, addr := range []string{smtpAddr, pop3Addr} {
			c.Main.Quiesce()
			conn, err := simnet.Dial(addr)
			if err == nil {
				// accepted by the simulated network: the listener is still open; a session must not start
				_ = conn.SetReadDeadline(time.Now().Add(20 * time.Second))
				br := bufio.NewReader(conn)
				line, rerr := br.ReadString('\n')
				if rerr == nil {
					c.Failf("new-session-after-shutdown", "a connection to %s made after shutdown was requested was greeted with %q", addr, strings.TrimSpace(line))
				}
				_ = conn.Close()
			}
		}
	}
	// every session open at cancel finishes; then the drains return
	if !c.Main.JoinTimeout(drainer, 20*time.Minute) {
		c.Failf("drain-never-returns", "the drain sequence of main.go did not finish within 20 simulated minutes: smtpDrained=%v pop3Drained=%v joined=%v", smtpDrained, pop3Drained, joined)
		return
	}
	c.JoinAll()
	_ = smtpDrainAt
	if c.Failed() {
		return
	}
	for _, cl := range clients {
		if !cl.early {
			continue // not a session that was open when shutdown was requested
		}
		if !cl.ok {
			c.Failf("open-session-could-not-finish("+cl.spec.Proto+")", "%s (parked at %s when shutdown was requested) could not complete its dialogue: %s", cl.name, cl.spec.Park, cl.problem)
		}
	}
	// the in-flight messages are stored, the marked POP3 messages are gone
	st := theStore
	for _, cl := range clients {
		if !cl.accepted || !cl.ok {
			continue
		}
		ms, err := st.GetMessages(cl.box)
		if err != nil {
			c.Failf("store-read-error", "%v", err)
			return
		}
		switch {
		case cl.spec.Proto == "smtp" && cl.spec.Park != "connect-idle":
			found := 0
			for _, m := range ms {
				if m.Subject() == cl.token {
					found++
				}
			}
			if found != 1 {
				c.Failf("in-flight-message-not-stored", "%s was answered 250 after shutdown was requested but mailbox %q holds %d copies of %s", cl.name, cl.box, found, cl.token)
			}
		case cl.spec.Proto == "pop3" && cl.spec.Park == "dele":
			for _, m := range ms {
				if m.ID() == popIDs[cl.box][0] {
					c.Failf("pop3-delete-not-applied", "%s marked message %s, QUIT was answered +OK, but the message is still there", cl.name, m.ID())
				}
			}
			if len(ms) != 2 {
				c.Failf("pop3-delete-wrong-set", "%s: mailbox %q holds %d messages after deleting one of three", cl.name, cl.box, len(ms))
			}
		}
	}
	c.NonTrivial(len(k.Sessions), k.Backend, k.Retention, k.CancelAt, c.Sim.Steps)
}

func c19RunClient(c *Ctx, cl *c19Client, canceled, wakeLate *bool) {
	defer func() { cl.done = true }()
	fail := func(format string, a ...interface{}) {
		if cl.problem == "" {
			cl.problem = fmt.Sprintf(format, a...)
		}
	}
	park := func() {
		cl.parked = true
		for !*canceled {
			simrt.Current().Block("parked until shutdown is requested")
		}
		if cl.spec.Delay > 0 {
			simrt.Sleep(time.Duration(cl.spec.Delay) * time.Millisecond)
		}
	}
	if cl.spec.Park == "late" {
		cl.parked = true
		for !*wakeLate {
			simrt.Current().Block("waiting to connect at the last moment")
		}
	}
	if cl.spec.Proto == "smtp" {
		sc, err := dialSMTP(c, cl.name, 400*time.Second)
		if err != nil {
			cl.parked = true
			return
		}
		cl.accepted = true
		cl.conn = sc.conn
		defer sc.close()
		step := 0
		at := map[string]int{"connect": 0, "connect-idle": 0, "greet": 1, "mail": 2, "rcpt": 3, "data-half": 4, "late": -1}[cl.spec.Park]
		if at == 0 {
			park()
		}
		if cl.spec.Park == "connect-idle" {
			// just say goodbye after shutdown
			if g := sc.readReply(); g.Code != 220 {
				fail("greeting: %s", g)
				return
			}
			if r := sc.cmd("QUIT"); r.Code != 221 {
				fail("QUIT: %s", r)
				return
			}
			cl.ok = true
			return
		}
		if g := sc.readReply(); g.Code != 220 {
			fail("greeting: %s", g)
			return
		}
		if r := sc.cmd("EHLO client.sim"); !r.ok2xx() {
			fail("EHLO: %s", r)
			return
		}
		step = 1
		if at == step {
			park()
		}
		if r := sc.cmd("MAIL FROM:<sender@origin.test>"); !r.ok2xx() {
			fail("MAIL: %s", r)
			return
		}
		step = 2
		if at == step {
			park()
		}
		if r := sc.cmd("RCPT TO:<" + cl.box + "@example.com>"); !r.ok2xx() {
			fail("RCPT: %s", r)
			return
		}
		step = 3
		if at == step {
			park()
		}
		if r := sc.cmd("DATA"); r.Code != 354 {
			fail("DATA: %s", r)
			return
		}
		data := dotStuff(mkMessage(cl.token, "hdr@sender.test", []string{cl.box + "@example.com"}, 300, 5))
		if at == 4 {
			if err := sc.write(data[:len(data)/2]); err != nil {
				fail("write: %v", err)
				return
			}
			park()
			data = data[len(data)/2:]
		}
		if err := sc.write(data); err != nil {
			fail("write: %v", err)
			return
		}
		if r := sc.readReply(); r.Code != 250 {
			fail("final reply after DATA: %s", r)
			return
		}
		if r := sc.cmd("QUIT"); r.Code != 221 {
			fail("QUIT: %s", r)
			return
		}
		cl.ok = true
		return
	}
	// POP3
	conn, err := simnet.Dial(pop3Addr)
	if err != nil {
		cl.parked = true
		return
	}
	cl.accepted = true
	cl.conn = conn
	defer conn.Close()
	br := bufio.NewReader(conn)
	say := func(line string) string {
		if line != "" {
			_ = conn.SetWriteDeadline(time.Now().Add(400 * time.Second))
			if _, err := conn.Write([]byte(line + "\r\n")); err != nil {
				return "write error: " + err.Error()
			}
		}
		_ = conn.SetReadDeadline(time.Now().Add(700 * time.Second))
		l, err := br.ReadString('\n')
		if err != nil {
			return "read error: " + err.Error()
		}
		c.Logf("%s %q -> %q", cl.name, line, strings.TrimSpace(l))
		return strings.TrimSpace(l)
	}
	expectOK := func(line string) bool {
		if r := say(line); !strings.HasPrefix(r, "+OK") {
			fail("%q answered %q", line, r)
			return false
		}
		return true
	}
	if cl.spec.Park == "connect" {
		park()
	}
	if !expectOK("") {
		return
	}
	if !expectOK("USER "+cl.box) || !expectOK("PASS x") {
		return
	}
	if cl.spec.Park == "login" {
		park()
	}
	if cl.spec.Park == "dele" {
		if !expectOK("DELE 1") {
			return
		}
		park()
	}
	if !expectOK("STAT") || !expectOK("QUIT") {
		return
	}
	cl.ok = true
}

func init() {
	register(&Prop{
		ID:    "C19",
		Level: "exploration",
		Gen:   genC19,
		Run:   runC19,
		Config: func(cs Case) simrt.Config {
			return simrt.Config{NoJumps: true, MaxSteps: 2000000, MaxSimTime: 6 * time.Hour}
		},
		BudgetIsViolation: true,
		QuickRuns:         5000,
		ThoroughRuns:      120000,
		Rule: "the real server.FullAssembly + Services.Start (message hub, web server idle on a simulated listener, SMTP, POP3, retention scanner) " +
			"over the memory or file store on the simulated network, disk and clock; 0-4 sessions are parked by script in a protocol state " +
			"(SMTP: connected, greeted, after MAIL, after RCPT, half of the message data sent; POP3: connected, logged in, after DELE), then a " +
			"driver mirrors cmd/inbucket/main.go: cancel(), SMTPServer.Drain(), POP3Server.Drain(), RetentionScanner.Join(). The seed orders " +
			"cancel (at 0, 10 ms, just before/after/inside the first retention scan at 60 s), the clients' continuation 0-3 s later, 0-2 late " +
			"dial attempts per port and the scheduler's choices. Oracle: late dials are refused or never greeted; every session open at cancel " +
			"completes with normal replies, its message is acknowledged 250 and stored, its POP3 deletion applied on QUIT; each Drain returns " +
			"only when no session accepted before cancel is still running, and does return; Join returns within one simulated second; no task " +
			"panics (e.g. on events emitted after the hub stopped). non-trivial = every run, distinct by shape and steps",
		Real:        []string{"pkg/server (FullAssembly, Services.Start)", "pkg/server/smtp", "pkg/server/pop3", "pkg/server/web (Start/serve)", "pkg/msghub", "pkg/storage RetentionScanner", "stores", "net/http.Server.Serve on the simulated listener"},
		Stub:        []string{"cmd/inbucket/main.go signal loop (15-line driver with the same order of calls; the 15 s forced exit is not modelled)", "TCP", "disk", "clock", "scheduler"},
		Assumptions: []string{"Lua host disabled (no script)", "TLS never enabled"},
	})
}
