package harness

import (
	"bytes"
	"context"
	"encoding/json"
	"fmt"
	"io"
	"net/http/httptest"
	"os"
	"strconv"
	"strings"
	"time"

	"github.com/inbucket/inbucket/v3/pkg/extension"
	"github.com/inbucket/inbucket/v3/pkg/msghub"
	"github.com/inbucket/inbucket/v3/pkg/rest"
	"github.com/inbucket/inbucket/v3/pkg/server/web"
	"github.com/inbucket/inbucket/v3/pkg/webui"
	"github.com/inbucket/inbucket/v3/vsim/simnet"
	"github.com/inbucket/inbucket/v3/vsim/simrt"
)

// C02: message content survives byte-for-byte from SMTP DATA to every read
// interface (store, REST source, web UI source, POP3 RETR).

type c02Piece struct {
	Kind string // text dots lonedot empty barelf barecr nul8 long
	N    int
	Seed int
}

type c02Case struct {
	Rcpts   int // 1-3 recipients: every copy must be complete
	Store   StoreCfg
	Net     simnet.Profile
	Pieces  []c02Piece
	NoFinal bool // no final newline
	Headers bool // start with a header block (else body only)
	// Busy: the server is doing other things at the same time - a second SMTP
	// session delivers a different message of OtherN bytes to another mailbox
	// while this one is delivered, and the read interfaces (REST, web UI, POP3
	// RETR) fetch the message at the same time instead of one after the other.
	Busy   bool
	OtherN int
	Fault  fsFault // file back-end: a disk fault while the message is being stored
	// SlowPop: the POP3 client reads the message slowly but steadily through small
	// connection buffers - no pause comes near the idle timeout, all of them together exceed it
	SlowPop bool
}

func (k *c02Case) busyString() string {
	if !k.Busy {
		return "sequential"
	}
	return fmt.Sprintf("busy server: second SMTP session (%d-byte message) alongside, readers concurrent", k.OtherN)
}

func (k *c02Case) faultString() string {
	if k.SlowPop {
		return k.Fault.String() + "; slow POP3 reader"
	}
	return k.Fault.String()
}

func (k *c02Case) Describe() []string {
	l := []string{fmt.Sprintf("store=%s %s recipients=%d noFinalNewline=%v size=%d", k.Store, profileString(k.Net), k.Rcpts, k.NoFinal, len(k.data())), k.busyString(), k.faultString()}
	for i, p := range k.Pieces {
		l = append(l, fmt.Sprintf("%3d %s n=%d", i, p.Kind, p.N))
	}
	return l
}

func c02Fill(seed, n int, alphabet string) []byte {
	b := make([]byte, n)
	x := uint64(seed)*0x9E3779B97F4A7C15 + 7
	for i := range b {
		x ^= x << 13
		x ^= x >> 7
		x ^= x << 17
		b[i] = alphabet[x%uint64(len(alphabet))]
	}
	return b
}

// data renders the message data as the client has it.
func (k *c02Case) data() []byte {
	var b bytes.Buffer
	if k.Headers {
		b.WriteString("From: <hdr@sender.test>\r\nSubject: c02\r\n\r\n")
	}
	const plain = "abcdefghijklmnopqrstuvwxyz ABC.,;:-_0123456789%"
	for _, p := range k.Pieces {
		switch p.Kind {
		case "text":
			b.Write(c02Fill(p.Seed, p.N, plain))
			b.WriteString("\r\n")
		case "dots":
			b.WriteString(strings.Repeat(".", 1+p.N%3))
			b.Write(c02Fill(p.Seed, p.N/3, plain))
			b.WriteString("\r\n")
		case "percent":
			b.WriteString("100% sure %s %d %v %% %!s(MISSING) %")
			b.Write(c02Fill(p.Seed, p.N%40, plain))
			b.WriteString("%\r\n")
		case "lonedot":
			b.WriteString(".\r\n")
		case "empty":
			b.WriteString("\r\n")
		case "barelf":
			b.Write(c02Fill(p.Seed, p.N, plain))
			// the byte after a bare LF is never a dot (see Gen)
			b.WriteString("\ny")
		case "barecr":
			b.Write(c02Fill(p.Seed, p.N, plain))
			b.WriteString("\rx") // bare CR followed by an ordinary byte
			b.Write(c02Fill(p.Seed+1, p.N/2, plain))
			b.WriteString("\r\n")
		case "nul8":
			b.Write(c02Fill(p.Seed, p.N, "\x00\x01\x7f\x80\xfe\xffab \t"))
			b.WriteString("\r\n")
		case "long":
			b.Write(c02Fill(p.Seed, p.N, plain))
			b.WriteString("\r\n")
		}
	}
	d := b.Bytes()
	if k.NoFinal && len(d) >= 2 {
		d = d[:len(d)-2]
		// never end in CR (a CR right before the end of data is excluded)
		for len(d) > 0 && d[len(d)-1] == '\r' {
			d = d[:len(d)-1]
		}
	}
	return d
}

func genC02(w *simrt.Choices, tier string, avoid map[string]bool) Case {
	k := &c02Case{Store: StoreCfg{Backend: []string{"mem", "file"}[w.Choose(2)]}, Net: netProfile(w)}
	k.Net.MaxDelay = []time.Duration{0, 3 * time.Millisecond}[w.Choose(2)]
	// a message needs a header block to be a message: without one the server may
	// legitimately refuse it (451), so the adversarial part is the body
	k.Headers = true
	k.Rcpts = 1 + w.Choose(3)
	k.NoFinal = w.Choose(4) == 0
	kinds := []string{"text", "text", "dots", "lonedot", "empty", "barelf", "barecr", "nul8", "long", "percent"}
	n := w.Choose(14)
	budget := 64 << 10
	if tier == "thorough" && w.Choose(16) == 0 {
		budget = 4 << 20
	}
	for i := 0; i < n; i++ {
		p := c02Piece{Kind: kinds[w.Choose(len(kinds))], Seed: w.Choose(1 << 16)}
		switch p.Kind {
		case "long":
			p.N = []int{1000, 4095, 4096, 4097, 65535, 65536, 65537, 70000, 200000}[w.Choose(9)]
			if avoid["pop3-long-line"] && p.N > 60000 {
				p.N = 60000
			}
			if budget > 1<<20 {
				p.N = []int{200000, 1 << 20, 3 << 20}[w.Choose(3)]
			}
		default:
			p.N = []int{0, 1, 3, 40, 77, 998}[w.Choose(6)]
		}
		if n := len(k.Pieces); n > 0 && k.Pieces[n-1].Kind == "barelf" && (p.Kind == "dots" || p.Kind == "lonedot" || p.Kind == "barelf") {
			// a dot right after a bare LF has no defined meaning: RFC 5321 lines end in CRLF, and
			// whether a bare LF starts a "line" for dot-stuffing is not fixed by the property
			p.Kind = "text"
		}
		if p.N > budget {
			p.N = budget
		}
		budget -= p.N
		k.Pieces = append(k.Pieces, p)
	}
	if len(k.data()) > 8192 && k.Net.SegMode == 2 {
		k.Net.SegMode = 1
	}
	if len(k.data()) > 256<<10 && k.Net.BufCap > 0 && k.Net.BufCap < 65536 {
		// megabytes through 64-byte connection buffers are tens of thousands of
		// segments per transfer (SMTP, then POP3): the run would not fit its step budget
		k.Net.BufCap = 65536
	}
	k.Busy = w.Choose(3) == 0
	k.OtherN = []int{30, 500, 3000, 9000, 70000}[w.Choose(5)]
	if k.Store.Backend == "file" && !k.Busy {
		k.Fault = genFSFault(w, 1)
	}
	if !k.Busy && len(k.Pieces) > 0 && w.Choose(4) == 0 {
		// a message of many ordinary lines (no single line dominates the transfer)
		var ps []c02Piece
		for _, p := range k.Pieces {
			if p.Kind != "long" {
				ps = append(ps, p)
			}
		}
		if len(ps) > 0 {
			k.Pieces = ps
			for len(k.data()) < 6000 && len(k.Pieces) < 60 {
				k.Pieces = append(k.Pieces, ps...)
				k.Pieces = append(k.Pieces, c02Piece{Kind: "text", N: 77, Seed: len(k.Pieces)})
			}
			k.SlowPop = true
			k.Net.BufCap, k.Net.MaxDelay = 64, 0
		}
	}
	return k
}

func normCRLF(b []byte) []byte { return bytes.ReplaceAll(b, []byte("\r\n"), []byte("\n")) }

func runC02(c *Ctx, cs Case) {
	k := cs.(*c02Case)
	if k.Store.Backend == "file" {
		ensureFS(c.Sim)
	}
	simnet.Of(c.Sim).Profile = k.Net
	if os.Getenv("VERIF_NET_TRACE") != "" {
		simnet.Of(c.Sim).Profile.Trace = true
	}
	eh := extension.NewHost()
	st, err := openStore(k.Store, eh)
	if err != nil {
		panic(err)
	}
	root := baseRoot()
	root.SMTP.Timeout = 600 * time.Second
	root.POP3.Timeout = 600 * time.Second
	if k.SlowPop {
		root.POP3.Timeout = 30 * time.Second
	}
	env := startSMTP(c, root, st, eh)
	pop := startPOP3(c, root.POP3, st)
	hub := msghub.New(5, eh)
	hctx, hcancel := context.WithCancel(context.Background())
	defer hcancel()
	simrt.Go("hub.Start", func() { hub.Start(hctx) })
	web.Router = web.NewRouter()
	webui.SetupRoutes(web.Router.PathPrefix("/serve/").Subrouter())
	rest.SetupRoutes(web.Router.PathPrefix("/api/").Subrouter())
	web.NewServer(root, env.mgr, hub)

	data := k.data()
	transmitted := ensureCRLF(data) // what precedes the terminating ".CRLF" on the wire
	const sender, helo = "sender@origin.test", "client.sim"
	boxes := []string{"reader", "reader2", "reader3"}[:k.Rcpts]
	box := boxes[len(boxes)-1] // the interfaces are compared on the last recipient's copy
	okSent, faultRefused := false, false
	t := c.Go("smtp-client", func() {
		cl, err := dialSMTP(c, "smtp", 900*time.Second)
		if err != nil {
			c.Failf("dial-refused", "%v", err)
			return
		}
		defer cl.close()
		cl.readReply()
		cl.cmd("EHLO " + helo)
		cl.cmd("MAIL FROM:<" + sender + ">")
		for _, b := range boxes {
			cl.cmd("RCPT TO:<" + b + "@example.com>")
		}
		if r := cl.cmd("DATA"); r.Code != 354 {
			c.Failf("data-refused", "DATA answered %s", r)
			return
		}
		fired := fsFired(c.Sim)
		disarm := k.Fault.arm(c.Sim)
		fin := cl.sendData(data)
		disarm()
		if fin.Code != 250 {
			if fsFired(c.Sim) > fired {
				// the disk failed and the server said so: nothing is promised about this message
				c.Stat("probe.transaction_refused_after_disk_fault", 1)
				faultRefused = true
				return
			}
			c.Failf("message-refused", "a %d-byte message was answered %s", len(data), fin)
			return
		}
		cl.cmd("QUIT")
		okSent = true
	})
	get := func(path string) (int, []byte, bool) {
		req := httptest.NewRequest("GET", path, nil)
		rec := httptest.NewRecorder()
		panicked := false
		func() {
			defer func() {
				if r := recover(); r != nil {
					panicked = true
				}
			}()
			web.Router.ServeHTTP(rec, req)
		}()
		if cl := rec.Header().Get("Content-Length"); cl != "" && !panicked {
			if n, err := strconv.Atoi(cl); err != nil || n != rec.Body.Len() {
				c.Failf("http/content-length-differs-from-body", "GET %s: the response announces Content-Length %s but its body has %d bytes", path, cl, rec.Body.Len())
			}
		}
		return rec.Code, rec.Body.Bytes(), panicked
	}
	// the second session (Busy): four different messages, one after the other
	var others, otherStored [][]byte
	otherOK := false
	var t2 *simrt.Task
	if k.Busy {
		for n := 0; n < 4; n++ {
			d := []byte(fmt.Sprintf("Subject: the other message %d\r\nFrom: other@origin.test\r\n\r\n", n))
			for i := 0; len(d) < k.OtherN; i++ {
				d = append(d, fmt.Sprintf("%d/%04d ZYXWVUTSRQPONMLKJIHGFEDCBA zyxwvutsrqponmlkjihgfedcba 9876543210\r\n", n, i)...)
			}
			if k.OtherN >= 70000 && n == 1 {
				// after a large message of ordinary lines: one whose single line is longer than all of that
				d = []byte(fmt.Sprintf("Subject: the other message %d\r\nFrom: other@origin.test\r\n\r\n", n))
				d = append(d, bytes.Repeat([]byte("L"), 150000)...)
				d = append(d, "\r\n"...)
			}
			if k.OtherN >= 70000 && n >= 2 {
				d = d[:bytes.Index(d, []byte("\r\n\r\n"))+4]
				d = append(d, "short\r\n"...)
			}
			others = append(others, d)
		}
		c.Go("latest-poller", func() {
			// another reader keeps asking for the newest message of the mailbox the second
			// session is delivering to: every answer is "nothing yet" or one whole message
			for i := 0; i < 300 && !otherOK && !c.Failed(); i++ {
				code, body, pan := get("/api/v1/mailbox/bystander/latest/source")
				switch {
				case pan:
					c.Failf("rest-source-failed", "GET bystander/latest/source panicked")
				case code == 200:
					ok := false
					for _, d := range others {
						ok = ok || bytes.HasSuffix(normCRLF(body), normCRLF(d))
					}
					if !ok {
						c.Failf("rest-latest-source-is-no-message", "GET bystander/latest/source while mail was arriving returned %d bytes that are none of the messages delivered there: %q", len(body), short(body))
					}
				case code != 404:
					c.Failf("rest-source-failed", "GET bystander/latest/source: status %d", code)
				}
				if i%25 == 24 {
					// let simulated time pass (it only does when nobody is runnable)
					simrt.Sleep(time.Millisecond)
				} else {
					simrt.Current().Yield("poller between requests")
				}
			}
		})
		t2 = c.Go("smtp-client2", func() {
			cl, err := dialSMTP(c, "smtp2", 900*time.Second)
			if err != nil {
				c.Failf("dial-refused", "%v", err)
				return
			}
			defer cl.close()
			cl.readReply()
			cl.cmd("EHLO other.sim")
			for n, d := range others {
				cl.cmd("MAIL FROM:<other@origin.test>")
				cl.cmd("RCPT TO:<bystander@example.com>")
				if r := cl.cmd("DATA"); r.Code != 354 {
					c.Failf("data-refused", "second session, message %d: DATA answered %s", n, r)
					return
				}
				if fin := cl.sendData(d); fin.Code != 250 {
					c.Failf("message-refused", "second session: message %d (%d bytes) was answered %s", n, len(d), fin)
					return
				}
			}
			cl.cmd("QUIT")
			otherOK = true
		})
		c.Stat("probe.second_smtp_session_alongside", 1)
	}
	c.Main.Join(t)
	if t2 != nil {
		c.Main.Join(t2)
	}
	if faultRefused {
		env.cancel()
		pop.stop()
		return
	}
	if c.Failed() || !okSent {
		return
	}
	if k.Busy {
		if !otherOK {
			return
		}
		l, err := st.GetMessages("bystander")
		if err != nil || len(l) != len(others) {
			c.Failf("message-not-stored", "mailbox \"bystander\" lists %d messages (err=%v) after the second session's %d acknowledged deliveries", len(l), err, len(others))
			return
		}
		for n, om := range l {
			r, err := om.Source()
			if err != nil {
				c.Failf("store-source-error", "bystander: Source(): %v", err)
				return
			}
			src, _ := io.ReadAll(r)
			_ = r.Close()
			if !bytes.HasSuffix(normCRLF(src), normCRLF(others[n])) {
				c.Failf(k.Store.Backend+"/other-session-content-differs", "message %d that the second session delivered at the same time is not stored as transmitted: stored %q, sent %q",
					n, short(src), short(others[n]))
				return
			}
			otherStored = append(otherStored, normCRLF(src))
		}
		// one POP3 session retrieves all of them, in order
		bt := c.Go("pop3-bystander", func() {
			pc, err := dialPOP3(c, "pop3b", 900*time.Second)
			if err != nil {
				c.Failf("dial-refused", "%v", err)
				return
			}
			defer pc.conn.Close()
			pc.readGreeting()
			_ = pc.send("USER bystander", "\r\n")
			pc.readReply(false)
			_ = pc.send("PASS x", "\r\n")
			if r := pc.readReply(false); !r.OK {
				c.Failf("pop3-login-failed", "%s", r)
				return
			}
			for n := range otherStored {
				_ = pc.send(fmt.Sprintf("RETR %d", n+1), "\r\n")
				r := pc.readReply(true)
				if !r.OK || r.Err != nil {
					c.Failf("pop3-retr-failed", "RETR %d of a session retrieving several messages: %s", n+1, r)
					return
				}
				var got bytes.Buffer
				for _, ln := range r.Body {
					if strings.HasPrefix(ln, ".") {
						ln = ln[1:]
					}
					got.WriteString(ln)
					got.WriteString("\n")
				}
				if !bytes.Equal(got.Bytes(), otherStored[n]) {
					c.Failf("pop3-retr-differs", "RETR %d of a session retrieving several messages differs from the stored source: %s", n+1, diffBytes(got.Bytes(), otherStored[n]))
					return
				}
			}
			_ = pc.send("QUIT", "\r\n")
			pc.readReply(false)
		})
		c.Main.Join(bt)
		if c.Failed() {
			return
		}
	}
	ms, err := st.GetMessages(box)
	if err != nil || len(ms) != 1 {
		c.Failf("message-not-stored", "mailbox %q lists %d messages (err=%v) after one acknowledged delivery", box, len(ms), err)
		return
	}
	// every recipient's copy is complete
	for _, b := range boxes {
		l, err := st.GetMessages(b)
		if err != nil || len(l) != 1 {
			c.Failf("message-not-stored", "mailbox %q lists %d messages (err=%v) after one acknowledged delivery to %d recipients", b, len(l), err, len(boxes))
			return
		}
		r, err := l[0].Source()
		if err != nil {
			c.Failf("store-source-error", "%q: Source(): %v", b, err)
			return
		}
		src, _ := io.ReadAll(r)
		_ = r.Close()
		if !bytes.HasSuffix(normCRLF(src), normCRLF(ensureCRLF(k.data()))) {
			c.Failf(k.Store.Backend+"/recipient-copy-incomplete", "the copy in mailbox %q (recipient %d of %d) does not end with the transmitted data: %d bytes stored, %d transmitted",
				b, indexOf(boxes, b)+1, len(boxes), len(src), len(k.data()))
			return
		}
	}
	m := ms[0]
	rd, err := m.Source()
	if err != nil {
		c.Failf("store-source-error", "Source(): %v", err)
		return
	}
	stored, _ := io.ReadAll(rd)
	_ = rd.Close()
	tag := k.Store.Backend

	// ---- the store itself: trace headers + exactly the transmitted data ----
	ns := normCRLF(stored)
	// trace headers: a Return-Path line, then a Received line with its folded
	// continuation lines (lines starting with white space)
	rest := ns
	nextLine := func() []byte {
		i := bytes.IndexByte(rest, '\n')
		if i < 0 {
			l := rest
			rest = nil
			return l
		}
		l := rest[:i]
		rest = rest[i+1:]
		return l
	}
	rp := nextLine()
	recv := append([]byte{}, nextLine()...)
	for len(rest) > 0 && (rest[0] == ' ' || rest[0] == '\t') {
		recv = append(recv, nextLine()...)
	}
	if !bytes.HasPrefix(rp, []byte("Return-Path:")) || !bytes.Contains(rp, []byte(sender)) ||
		!bytes.HasPrefix(recv, []byte("Received:")) || !bytes.Contains(recv, []byte(helo)) || !bytes.Contains(recv, []byte(box)) {
		c.Failf(tag+"/trace-headers-wrong", "stored source does not start with Return-Path and Received trace headers: %q", short(stored))
		return
	}
	if want := normCRLF(transmitted); !bytes.Equal(rest, want) {
		c.Failf(tag+"/store-content-differs", "after the trace headers the stored source differs from the transmitted data: %s", diffBytes(rest, want))
		return
	}
	if m.Size() != int64(len(stored)) {
		c.Failf(tag+"/size-differs", "Size()=%d, stored source has %d bytes", m.Size(), len(stored))
		return
	}

	// ---- REST and web UI ----
	httpSources := func(rounds int) {
		for i := 0; i < rounds; i++ {
			for _, iface := range []struct{ name, path string }{
				{"rest-source", "/api/v1/mailbox/" + box + "/" + m.ID() + "/source"},
				{"webui-source", "/serve/mailbox/" + box + "/" + m.ID() + "/source"},
			} {
				code, body, pan := get(iface.path)
				if pan || code != 200 {
					c.Failf(iface.name+"-failed", "GET %s: status %d panic=%v", iface.path, code, pan)
					return
				}
				if !bytes.Equal(normCRLF(body), ns) {
					c.Failf(iface.name+"-differs", "GET %s returns a source that differs from the store's: %s", iface.path, diffBytes(normCRLF(body), ns))
					return
				}
				if rounds > 1 {
					simrt.Current().Yield("http reader between requests")
				}
			}
		}
	}
	httpSources(1)
	if c.Failed() {
		return
	}
	var hr *simrt.Task
	if k.Busy {
		// the same requests again while the POP3 session below retrieves the message
		hr = c.Go("http-readers", func() { httpSources(6) })
	}
	code, body, _ := get("/api/v1/mailbox/" + box)
	var list []struct {
		ID   string `json:"id"`
		Size int64  `json:"size"`
	}
	if code != 200 || json.Unmarshal(body, &list) != nil || len(list) != 1 {
		c.Failf("rest-list-failed", "GET mailbox list: status %d body %q", code, short(body))
		return
	}
	if list[0].Size != int64(len(stored)) {
		c.Failf("rest-size-differs", "REST list reports size %d, the stored source has %d bytes", list[0].Size, len(stored))
		return
	}

	// ---- POP3 ----
	pt := c.Go("pop3-client", func() {
		pc, err := dialPOP3(c, "pop3", 900*time.Second)
		if err != nil {
			c.Failf("dial-refused", "%v", err)
			return
		}
		defer pc.conn.Close()
		pc.readGreeting()
		say := func(line string, multi bool) popReply {
			_ = pc.send(line, "\r\n")
			return pc.readReply(multi)
		}
		say("USER "+box, false)
		if r := say("PASS x", false); !r.OK {
			c.Failf("pop3-login-failed", "%s", r)
			return
		}
		sizeOf := func(r popReply, field int) int64 {
			f := strings.Fields(r.First)
			if len(f) <= field {
				return -1
			}
			n, err := strconv.ParseInt(f[field], 10, 64)
			if err != nil {
				return -1
			}
			return n
		}
		if r := say("STAT", false); !r.OK || sizeOf(r, 2) != int64(len(stored)) {
			c.Failf("pop3-size-differs", "STAT answered %q, the stored source has %d bytes", r.First, len(stored))
			return
		}
		if r := say("LIST 1", false); !r.OK || sizeOf(r, 2) != int64(len(stored)) {
			c.Failf("pop3-size-differs", "LIST 1 answered %q, the stored source has %d bytes", r.First, len(stored))
			return
		}
		if k.SlowPop {
			// pause after every chunk of bytes; a chunk is at least as long as the longest
			// line, so that no single line of the server takes more than two pauses
			longest := 0
			for _, ln := range bytes.Split(ns, []byte("\n")) {
				if len(ln) > longest {
					longest = len(ln)
				}
			}
			chunk := len(ns) / 8
			if chunk < longest+3 {
				chunk = longest + 3
			}
			if len(ns)/chunk >= 5 { // otherwise the whole transfer stays below the timeout anyway
				pc.slowChunk, pc.slowBy = chunk, root.POP3.Timeout/3
				c.Stat("fault.slow_steady_pop3_reader", 1)
			}
		}
		r := say("RETR 1", true)
		pc.slowChunk = 0
		if !r.OK || r.Err != nil {
			c.Failf("pop3-retr-failed", "RETR 1: %s", r)
			return
		}
		if sizeOf(r, 1) != int64(len(stored)) {
			c.Failf("pop3-size-differs", "RETR announced %q, the stored source has %d bytes", r.First, len(stored))
			return
		}
		var got bytes.Buffer
		for _, ln := range r.Body {
			if strings.HasPrefix(ln, ".") {
				ln = ln[1:]
			}
			got.WriteString(ln)
			got.WriteString("\n")
		}
		if !bytes.Equal(got.Bytes(), ns) {
			c.Failf("pop3-retr-differs", "RETR returns a message that differs from the stored source: %s", diffBytes(got.Bytes(), ns))
			return
		}
		// the session must still be in step: nothing unsolicited follows
		if q := say("QUIT", false); !q.OK {
			c.Failf("pop3-out-of-step", "after RETR, QUIT was answered %q", q.First)
		}
	})
	c.Main.Join(pt)
	if hr != nil {
		c.Main.Join(hr)
	}
	env.cancel()
	pop.stop()
	long := 0
	for _, p := range k.Pieces {
		if p.N > 65536 {
			long++
		}
	}
	if long > 0 {
		c.Stat("probe.messages_with_line_over_64KiB", 1)
	}
	c.NonTrivial(len(data), len(k.Pieces), k.NoFinal, k.Headers, k.Store.Backend, c.Sim.Steps)
}

// diffBytes describes the first difference between two byte strings.
func diffBytes(got, want []byte) string {
	n := len(got)
	if len(want) < n {
		n = len(want)
	}
	i := 0
	for i < n && got[i] == want[i] {
		i++
	}
	ctx := func(b []byte) string {
		lo, hi := i-12, i+12
		if lo < 0 {
			lo = 0
		}
		if hi > len(b) {
			hi = len(b)
		}
		return fmt.Sprintf("%q", b[lo:hi])
	}
	return fmt.Sprintf("got %d bytes, want %d; first difference at offset %d: got ...%s..., want ...%s...", len(got), len(want), i, ctx(got), ctx(want))
}

func init() {
	register(&Prop{
		ID:    "C02",
		Level: "exploration",
		Gen:   genC02,
		Run:   runC02,
		Config: func(cs Case) simrt.Config {
			return simrt.Config{NoJumps: true, MaxSteps: 20000000, MaxSimTime: 24 * time.Hour}
		},
		BudgetIsViolation: true,
		QuickRuns:         3000,
		ThoroughRuns:      40000,
		Rule: "one message per run travels SMTP DATA -> StoreManager -> real mem/file store and is read back through the store, the REST source " +
			"endpoint, the web-UI source endpoint (real router and handlers, recording writer) and POP3 RETR (real POP3 server on the simulated " +
			"network). The body is assembled from 0-13 adversarial pieces: text lines, lines starting with 1-3 dots, a lone dot line, empty " +
			"lines, bare LF (also followed by a dot), bare CR followed by an ordinary byte, NUL/8-bit bytes, long lines of 1000..200000 bytes " +
			"(thorough: up to 3 MiB, 4 MiB messages), with or without a header block and a final newline; the client dot-stuffs after every LF. " +
			"A dot directly after a bare LF is not generated (dot-stuffing is only defined for CRLF lines). The SMTP and POP3 streams are cut into seeded segments with small buffers. Oracle after CRLF->LF normalisation: stored source = " +
			"Return-Path and Received lines + exactly the transmitted data; all four interfaces agree; Size(), REST list size, POP3 STAT/LIST/" +
			"RETR announcement = length of the stored source; the POP3 session stays in step. A CR immediately before CRLF or the end of data " +
			"is not generated. non-trivial = every run, distinct by content shape",
		Real:        []string{"pkg/server/smtp", "pkg/message", "stores", "pkg/rest (source, list)", "pkg/webui (source)", "pkg/server/pop3", "gorilla/mux", "net/textproto"},
		Stub:        []string{"TCP (simnet) for SMTP and POP3", "net/http server loop (handlers invoked through the router with a recorder)", "disk", "scheduler"},
		Assumptions: []string{"line-ending normalisation = CRLF->LF in one left-to-right pass; a CR right before CRLF / end of data is excluded"},
	})
}

func indexOf(l []string, s string) int {
	for i, x := range l {
		if x == s {
			return i
		}
	}
	return -1
}
