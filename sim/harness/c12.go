package harness

import (
	"context"
	"fmt"
	"sort"
	"strings"
	"time"

	"github.com/inbucket/inbucket/v3/pkg/config"
	"github.com/inbucket/inbucket/v3/pkg/extension"
	"github.com/inbucket/inbucket/v3/pkg/storage"
	"github.com/inbucket/inbucket/v3/vsim/models"
	"github.com/inbucket/inbucket/v3/vsim/simrt"
)

// C12: retention removes exactly the expired messages and nothing else; the
// scan and the scanner's run loop stop promptly on shutdown.

type c12Msg struct {
	Box string
	Age time.Duration // age relative to the period at creation: date = now - period + Age... see run
	At  time.Duration // simulated time (from run start) at which it is delivered; 0 = prefill
}

type c12Case struct {
	Cfg      StoreCfg
	Names    []string
	Period   time.Duration
	Sleep    time.Duration
	Prefill  []c12Msg
	Live     []c12Msg // delivered by a concurrent task while the scanner runs
	Mode     string   // "scan" (direct DoScan) | "loop" (Start + cancel)
	CancelAt time.Duration
	RunFor   time.Duration
	Racers   string // "deliver" | "remove" | "none"
	// Many: 60 mailboxes with one expired message each, no pause between mailboxes, and shutdown
	// requested at the scanner's first removal.  Without a pause the scan's check for shutdown and
	// its zero-length wait are both ready each time and either may win, so how far an unchanged
	// scan still gets is geometrically distributed; the check allows 30 mailboxes (2^-30).
	Many bool
}

func (k *c12Case) Describe() []string {
	l := []string{fmt.Sprintf("store %s period=%v sleep=%v mode=%s cancelAt=%v runFor=%v racers=%s", k.Cfg, k.Period, k.Sleep, k.Mode, k.CancelAt, k.RunFor, k.Racers),
		"mailboxes " + strings.Join(k.Names, " | ")}
	for i, m := range k.Prefill {
		l = append(l, fmt.Sprintf("prefill %d %q age=period%+v", i, m.Box, -m.Age))
	}
	for i, m := range k.Live {
		l = append(l, fmt.Sprintf("live %d %q at=%v age=period%+v", i, m.Box, m.At, -m.Age))
	}
	return l
}

// offsets of a message's date from the cutoff (positive = younger than the period)
var c12Offsets = []time.Duration{-72 * time.Hour, -time.Hour, -time.Second, -time.Nanosecond, 0, time.Nanosecond, time.Second, 90 * time.Second, time.Hour, 1000 * time.Hour}

func genC12(w *simrt.Choices, tier string, avoid map[string]bool) Case {
	k := &c12Case{}
	k.Cfg = StoreCfg{Backend: []string{"mem", "file"}[w.Choose(2)]}
	k.Cfg.Cap = []int{0, 0, 0, 1, 3}[w.Choose(5)]
	if k.Cfg.Backend == "mem" && w.Choose(4) == 0 {
		k.Cfg.MaxKB = 1 // messages are ~300 bytes then: the size enforcer evicts while the scan runs
	}
	nb := 1 + w.Choose(12)
	k.Names = pickNames(w, nb, false)
	k.Period = []time.Duration{time.Nanosecond, time.Minute, 10 * time.Minute, 24 * time.Hour, 0}[w.Choose(5)]
	k.Sleep = []time.Duration{0, 50 * time.Millisecond, 2 * time.Second}[w.Choose(3)]
	k.Mode = []string{"scan", "loop"}[w.Choose(2)]
	if k.Period == 0 {
		// "a period of zero never deletes anything" is a statement about the
		// server's scanner (Start); DoScan is never called by the server then.
		k.Mode = "loop"
	}
	k.Racers = []string{"deliver", "deliver", "none", "remove", "remove-now", "deliver-now"}[w.Choose(6)]
	if k.Racers == "deliver-now" {
		// mail arrives at the very moment the scan runs (no simulated time in between:
		// the seed interleaves the two at every lock and file-system step)
		if k.Period == 0 {
			k.Racers = "deliver"
		} else {
			k.Mode = "scan"
		}
	}
	if k.Racers == "remove-now" {
		// another interface deletes expired mail at the very moment the scan runs
		if k.Period == 0 {
			k.Racers = "none"
		} else {
			k.Mode = "scan"
		}
	}
	for i, n := 0, w.Choose(16); i < n; i++ {
		k.Prefill = append(k.Prefill, c12Msg{Box: k.Names[w.Choose(nb)], Age: c12Offsets[w.Choose(len(c12Offsets))]})
	}
	if k.Period > 0 && w.Choose(25) == 0 {
		k.Many, k.Mode, k.Racers, k.Sleep, k.Live = true, "scan", "none", 0, nil
		k.Names, k.Prefill = nil, nil
		for i := 0; i < 60; i++ {
			n := fmt.Sprintf("many%02d", i)
			k.Names = append(k.Names, n)
			k.Prefill = append(k.Prefill, c12Msg{Box: n, Age: -time.Hour})
		}
	}
	k.RunFor = []time.Duration{30 * time.Second, 61 * time.Second, 3 * time.Minute, 11 * time.Minute}[w.Choose(4)]
	k.CancelAt = time.Duration(w.Choose(int(k.RunFor/time.Millisecond)+1)) * time.Millisecond
	if k.Racers != "none" && k.Racers != "remove-now" {
		for i, n := 0, 1+w.Choose(8); i < n; i++ {
			k.Live = append(k.Live, c12Msg{Box: k.Names[w.Choose(nb)], Age: c12Offsets[w.Choose(len(c12Offsets))],
				At: time.Duration(w.Choose(int(k.RunFor/time.Millisecond)+1)) * time.Millisecond})
			if k.Racers == "deliver-now" {
				k.Live[i].At = 0
				if len(k.Prefill) > 0 && w.Choose(2) == 0 {
					k.Live[i].Box = k.Prefill[w.Choose(len(k.Prefill))].Box // a mailbox the scan has work in
				}
			}
		}
		sort.SliceStable(k.Live, func(i, j int) bool { return k.Live[i].At < k.Live[j].At })
	}
	return k
}

// scanStore is what the scanner sees: it records scan windows and the
// scanner's own removals.
type scanStore struct {
	storage.Store
	seq            *int64
	scans          []scanWin
	removals       []scanRemoval
	onFirstRemoval func()
}

type scanWin struct {
	t0, t1 time.Time
	seq0   int64 // global event sequence number at scan start
}

type scanRemoval struct {
	box, id string
	at      time.Time
	err     error
	seq     int64 // global event sequence number
}

func (s *scanStore) VisitMailboxes(f func([]storage.Message) bool) error {
	*s.seq++
	w := scanWin{t0: time.Now(), seq0: *s.seq}
	s.scans = append(s.scans, w)
	err := s.Store.VisitMailboxes(f)
	s.scans[len(s.scans)-1].t1 = time.Now()
	return err
}

func (s *scanStore) RemoveMessage(mailbox, id string) error {
	if s.onFirstRemoval != nil {
		f := s.onFirstRemoval
		s.onFirstRemoval = nil
		f()
	}
	err := s.Store.RemoveMessage(mailbox, id)
	*s.seq++
	s.removals = append(s.removals, scanRemoval{box: mailbox, id: id, at: time.Now(), err: err, seq: *s.seq})
	return err
}

type c12Rec struct {
	box, id   string
	date      time.Time
	addedAt   time.Time
	addSeq    int64
	removedBy string // "" | "racer"
}

func runC12(c *Ctx, cs Case) {
	k := cs.(*c12Case)
	if k.Cfg.Backend == "file" {
		ensureFS(c.Sim)
	}
	st, err := openStore(k.Cfg, extension.NewHost())
	if err != nil {
		panic(err)
	}
	tag := tagOf(k.Cfg)
	var seq int64
	ss := &scanStore{Store: st, seq: &seq}
	var recs []*c12Rec
	tok := 0
	add := func(m c12Msg) {
		tok++
		date := time.Now().Add(-k.Period).Add(m.Age)
		body := []byte("retention test\r\n")
		if k.Cfg.MaxKB > 0 {
			body = []byte(strings.Repeat("retention test with a size limit\r\n", 9))
		}
		mm := &models.Msg{Mailbox: m.Box, Subject: fmt.Sprintf("tok%d", tok), From: people[1], Date: date, Body: body}
		id, err := st.AddMessage(delivery(mm))
		if err != nil {
			c.Failf(tag+"/AddMessage->error", "delivery to %q: %v", m.Box, err)
			return
		}
		seq++
		recs = append(recs, &c12Rec{box: m.Box, id: id, date: date, addedAt: time.Now(), addSeq: seq})
		c.Logf("add %s/%s date=now-period%+v", m.Box, id, m.Age)
	}
	for _, m := range k.Prefill {
		add(m)
	}
	start := time.Now()
	rs := storage.NewRetentionScanner(config.Storage{RetentionPeriod: k.Period, RetentionSleep: k.Sleep}, ss)
	ctx, cancel := context.WithCancel(context.Background())
	defer cancel()

	// racers
	if k.Racers == "remove-now" {
		c.Go("racer", func() {
			cutoff := time.Now().Add(-k.Period)
			n := 0
			for _, r := range recs {
				if r.date.Before(cutoff) && r.removedBy == "" && n < 3 && (len(r.id)+n)%2 == 0 {
					n++
					r.removedBy = "racer"
					_ = st.RemoveMessage(r.box, r.id)
					c.Logf("racer removed expired %s/%s", r.box, r.id)
				}
			}
			c.Stat("probe.expired_removed_by_racer_during_scan", int64(n))
		})
	} else if k.Racers != "none" {
		c.Go("racer", func() {
			for i, m := range k.Live {
				if d := m.At - time.Since(start); d > 0 {
					simrt.Sleep(d)
				}
				if k.Racers == "remove" && i%2 == 1 && len(recs) > 0 {
					r := recs[(i*7)%len(recs)]
					if r.removedBy == "" {
						r.removedBy = "racer"
						_ = st.RemoveMessage(r.box, r.id)
						c.Logf("racer removed %s/%s", r.box, r.id)
					}
					continue
				}
				add(m)
			}
		})
	}

	var startReturned, joinReturned, cancelAt time.Time
	var cancelSeq int64
	switch k.Mode {
	case "scan":
		if k.Many {
			ss.onFirstRemoval = func() {
				cancelAt = time.Now()
				seq++
				cancelSeq = seq
				cancel()
				c.Stat("fault.cancel_at_first_removal_of_a_scan_without_pauses", 1)
			}
		}
		scanDone := false
		c.Go("scan", func() {
			if err := rs.DoScan(ctx); err != nil {
				c.Failf(tag+"/DoScan->error", "DoScan: %v", err)
			}
			scanDone = true
		})
		if k.CancelAt < k.RunFor/2 && !k.Many {
			simrt.Sleep(k.CancelAt)
			cancelAt = time.Now()
			seq++
			cancelSeq = seq
			cancel()
			c.Stat("fault.cancel_during_scan_or_wait", 1)
			// the scan must end within a second of simulated time
			simrt.Sleep(time.Second + time.Millisecond)
			c.Main.Quiesce()
			if !scanDone {
				c.Failf("scan-ignores-cancel", "DoScan still running %v after cancellation", time.Since(cancelAt))
			}
		}
		c.JoinAll()
	case "loop":
		c.Go("retention.Start", func() {
			rs.Start(ctx)
			startReturned = time.Now()
		})
		c.Go("retention.Join", func() {
			rs.Join()
			joinReturned = time.Now()
		})
		if k.Period <= 0 {
			// disabled: Start returns at once
			c.Main.Quiesce()
			if startReturned.IsZero() || joinReturned.IsZero() {
				c.Failf("period0-start-blocks", "retention period 0: Start/Join did not return immediately")
			}
		}
		simrt.Sleep(k.CancelAt)
		cancelAt = time.Now()
		seq++
		cancelSeq = seq
		cancel()
		c.Stat("fault.cancel_during_scan_or_wait", 1)
		simrt.Sleep(time.Second)
		c.Main.Quiesce()
		if startReturned.IsZero() || joinReturned.IsZero() {
			c.Failf("shutdown-not-prompt", "one simulated second after shutdown was requested (at +%v): Start returned=%v Join returned=%v",
				cancelAt.Sub(start), !startReturned.IsZero(), !joinReturned.IsZero())
			return
		}
		// let the racers finish and simulated time pass: nothing may be deleted any more
		c.JoinAll()
		simrt.Sleep(3 * time.Minute)
	}
	if c.Failed() {
		return
	}

	// ---- oracle ----
	byKey := map[string]*c12Rec{}
	for _, r := range recs {
		byKey[r.box+"/"+r.id] = r
	}
	// (1) the scanner never removes a message younger than the period
	for _, rm := range ss.removals {
		r := byKey[rm.box+"/"+rm.id]
		if r == nil {
			c.Failf(tag+"/scanner-removed-unknown", "the scanner removed %s/%s, which was never delivered", rm.box, rm.id)
			continue
		}
		if k.Period <= 0 {
			c.Failf("period0-deletes", "retention period 0 but the scanner removed %s/%s", rm.box, rm.id)
		}
		if !r.date.Before(rm.at.Add(-k.Period)) {
			c.Failf("young-message-removed", "the scanner removed %s/%s at %v although its date %v is not older than the period %v (age %v)",
				rm.box, rm.id, rm.at.Sub(start), r.date.Sub(start), k.Period, rm.at.Sub(r.date))
		}
		if !joinReturned.IsZero() && rm.at.After(joinReturned) {
			c.Failf("deletion-after-join", "the scanner removed %s/%s at +%v, after Join had returned at +%v", rm.box, rm.id, rm.at.Sub(start), joinReturned.Sub(start))
		}
	}
	// (1b) "stops promptly": with a pause between mailboxes (RetentionSleep > 0) a scan that is
	// told to stop may finish the mailbox it is in, and one more if its pause ended at that very
	// instant - it does not go on through the store
	if cancelSeq > 0 && k.Sleep > 0 {
		after := map[string]bool{}
		for _, rm := range ss.removals {
			if rm.seq > cancelSeq {
				after[rm.box] = true
			}
		}
		if len(after) > 2 {
			c.Failf("scan-goes-on-after-cancel", "after shutdown was requested the scanner still removed mail in %d different mailboxes %v (pause between mailboxes: %v)", len(after), sortedKeys(after), k.Sleep)
		}
	}
	if cancelSeq > 0 && k.Many {
		after := map[string]bool{}
		for _, rm := range ss.removals {
			if rm.seq > cancelSeq {
				after[rm.box] = true
			}
		}
		if len(after) > 30 {
			c.Failf("scan-without-pauses-ignores-cancel", "shutdown was requested at the scanner's first removal; it went on to remove mail in %d of the other 59 mailboxes", len(after))
		}
		c.Stat("probe.mailboxes_scanned_after_cancel_without_pauses", int64(len(after)))
	}
	if k.Period <= 0 && len(ss.scans) > 0 {
		c.Failf("period0-scans", "retention period 0 but %d scans ran", len(ss.scans))
	}
	// (2) after every completed scan, everything that had expired when it started is gone
	live := map[string]bool{}
	for _, n := range k.Names {
		ms, err := st.GetMessages(n)
		if err != nil {
			c.Failf(tag+"/GetMessages->error", "%q: %v", n, err)
			return
		}
		for _, m := range ms {
			live[n+"/"+m.ID()] = true
		}
	}
	completed := 0
	for _, sw := range ss.scans {
		if sw.t1.IsZero() || (!cancelAt.IsZero() && !sw.t1.Before(cancelAt)) {
			continue // aborted by shutdown
		}
		completed++
		cutoff := sw.t0.Add(-k.Period)
		for _, r := range recs {
			if r.addSeq > sw.seq0 || !r.date.Before(cutoff) {
				continue
			}
			if live[r.box+"/"+r.id] {
				c.Failf("expired-message-survives", "%s/%s (date %v before cutoff %v of the scan that ran +%v..+%v) is still listed",
					r.box, r.id, r.date.Sub(start), cutoff.Sub(start), sw.t0.Sub(start), sw.t1.Sub(start))
			}
		}
	}
	// (3) nothing young disappears (no cap, no size limit: nobody but the scanner and the racer removes)
	if k.Cfg.Cap == 0 && k.Cfg.MaxKB == 0 {
		end := time.Now()
		for _, r := range recs {
			if r.removedBy != "" || live[r.box+"/"+r.id] {
				continue
			}
			removed := false
			for _, rm := range ss.removals {
				if rm.box == r.box && rm.id == r.id && rm.err == nil {
					removed = true
				}
			}
			if !removed {
				c.Failf("message-vanished", "%s/%s is gone although neither the scanner nor the racer removed it (date age at end %v, period %v)", r.box, r.id, end.Sub(r.date), k.Period)
			}
		}
	}
	c.Stat("probe.scans_completed", int64(completed))
	c.Stat("probe.scanner_removals", int64(len(ss.removals)))
	if len(ss.removals) > 0 || completed > 0 {
		c.NonTrivial(k.Mode, k.Cfg.String(), len(ss.removals), completed, len(recs), c.Sim.Steps)
	}
}

func init() {
	register(&Prop{
		ID:    "C12",
		Level: "exploration",
		Gen:   genC12,
		Run:   runC12,
		Config: func(cs Case) simrt.Config {
			return simrt.Config{NoJumps: true, MaxSteps: 400000, MaxSimTime: 48 * time.Hour}
		},
		BudgetIsViolation: true,
		QuickRuns:         8000,
		ThoroughRuns:      200000,
		Rule: "real RetentionScanner (direct DoScan, or the Start loop with Join) over the real memory and file stores on the simulated " +
			"clock: 1-12 mailboxes, 0-15 prefilled messages whose dates sit at the cutoff -72h,-1h,-1s,-1ns,0,+1ns,+1s,+90s,+1h,+1000h, " +
			"period in {0,1ns,1m,10m,24h}, RetentionSleep in {0,50ms,2s}, a racing task delivering (or, in separate sub-batches, removing at seeded instants or removing " +
			"expired messages at the very moment the scan runs) , and cancellation at a seeded instant. The scanner sees a recording Store wrapper. Oracle: every " +
			"removal by the scanner is of a message older than the period at that instant; after every completed scan everything expired " +
			"at its start is gone; with cap 0 nothing else vanishes; period 0 never scans; Start and Join return within one simulated " +
			"second of cancel and nothing is deleted afterwards. non-trivial = a scan completed or the scanner removed something",
		Real:        []string{"pkg/storage RetentionScanner (Start, DoScan, Join)", "pkg/storage/mem", "pkg/storage/file"},
		Stub:        []string{"clock and timers (synctest fake clock)", "scheduler (simrt)", "disk (simfs)"},
		Assumptions: []string{"message dates are those given on AddMessage (the scanner uses Date())"},
	})
}
