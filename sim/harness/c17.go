package harness

import (
	"bytes"
	"fmt"
	"net/mail"
	"sort"
	"strings"
	"time"

	"github.com/inbucket/inbucket/v3/pkg/extension"
	"github.com/inbucket/inbucket/v3/pkg/extension/event"
	"github.com/inbucket/inbucket/v3/pkg/extension/luahost"
	"github.com/inbucket/inbucket/v3/vsim/models"
	"github.com/inbucket/inbucket/v3/vsim/simnet"
	"github.com/inbucket/inbucket/v3/vsim/simrt"
	"github.com/rs/zerolog"
)

// C17: extension hooks decide exactly what they say; a broken script never
// loses mail.

type c17Txn struct {
	From   string
	Rcpts  []string
	End    string // data | rset
	Token  string
	Extra  int
	Probe  bool // after a refused MAIL, still try one RCPT (must not be accepted)
	HdrFrm string
}

func (t c17Txn) String() string {
	return fmt.Sprintf("MAIL<%s> RCPT%v end=%s token=%s hdrfrom=%s extra=%d probe=%v", t.From, t.Rcpts, t.End, t.Token, t.HdrFrm, t.Extra, t.Probe)
}

// goSpec: optional Go listeners on the same three brokers.
type goSpec struct {
	Order      string // none | before | after (relative to the "lua" listener)
	Mail, Rcpt *models.SMTPHook
	Msg        *models.MsgHook
}

type c17Case struct {
	Naming  string
	Pol     models.Policy
	Net     simnet.Profile
	Spec    luaSpec
	Go      goSpec
	Lua     string
	Clients [][]c17Txn
}

func descSMTPHook(h *models.SMTPHook) string {
	if h == nil {
		return "-"
	}
	return fmt.Sprintf("if %+v then %+v else %+v", h.If, h.Then, h.Else)
}

func descMsgHook(h *models.MsgHook) string {
	if h == nil {
		return "-"
	}
	return fmt.Sprintf("if %+v then %+v else %+v", h.If, h.Then, h.Else)
}

func (k *c17Case) Describe() []string {
	l := []string{fmt.Sprintf("naming=%s defaultAccept=%v accept=%v reject=%v defaultStore=%v store=%v discard=%v rejectOrigin=%v %s",
		k.Naming, k.Pol.DefaultAccept, k.Pol.AcceptDomains, k.Pol.RejectDomains, k.Pol.DefaultStore, k.Pol.StoreDomains,
		k.Pol.DiscardDomains, k.Pol.RejectOrigin, profileString(k.Net))}
	l = append(l, fmt.Sprintf("go listeners: order=%s mail={%s} rcpt={%s} msg={%s}", k.Go.Order, descSMTPHook(k.Go.Mail), descSMTPHook(k.Go.Rcpt), descMsgHook(k.Go.Msg)))
	l = append(l, fmt.Sprintf("lua model: mail={%s} rcpt={%s} msg={%s} afterStored=%d afterDeleted=%d", descSMTPHook(k.Spec.Mail), descSMTPHook(k.Spec.Rcpt),
		descMsgHook(k.Spec.Msg), k.Spec.AfterStored, k.Spec.AfterDeleted))
	for _, ln := range strings.Split(strings.TrimRight(k.Lua, "\n"), "\n") {
		l = append(l, "lua| "+ln)
	}
	for ci, txs := range k.Clients {
		for i, t := range txs {
			l = append(l, fmt.Sprintf("client%d txn%d %s", ci, i, t))
		}
	}
	return l
}

var c17SenderLocals = []string{"good", "xavier", "someone", "xx"}
var c17SenderDomains = []string{"example.org", "sender.test", "bad.org", "a.spam.test"}
var c17RcptLocals = []string{"alice", "bob", "carol.d", "dave-e", "xena", "xavi"}

func genGoSMTP(w *simrt.Choices) *models.SMTPHook {
	h := &models.SMTPHook{If: models.Cond{Kind: "always"}, Else: models.SMTPAnswer{Kind: "nil"}}
	if w.Choose(3) == 1 {
		h.If = models.Cond{Kind: "from-prefix", Arg: "x"}
	}
	switch w.Choose(4) {
	case 0:
		h.Then = models.SMTPAnswer{Kind: "nil"}
	case 1:
		h.Then = models.SMTPAnswer{Kind: "deny-code-text", Code: 554, Text: "go listener says no", EchoFrom: w.Choose(2) == 1}
	case 2:
		h.Then = models.SMTPAnswer{Kind: "allow"}
	case 3:
		h.Then = models.SMTPAnswer{Kind: "defer"}
	}
	return h
}

func genC17(w *simrt.Choices, tier string, avoid map[string]bool) Case {
	k := &c17Case{}
	k.Naming = []string{"local", "full", "domain"}[w.Choose(3)]
	k.Pol.DefaultAccept = w.Choose(3) != 0
	k.Pol.DefaultStore = w.Choose(3) != 0
	k.Pol.AcceptDomains = subset(w, smtpDomains)
	k.Pol.RejectDomains = subset(w, smtpDomains)
	k.Pol.StoreDomains = subset(w, smtpDomains)
	k.Pol.DiscardDomains = subset(w, smtpDomains)
	if w.Choose(3) != 0 {
		k.Pol.RejectOrigin = []string{"bad.org", "*.spam.test"}
	}
	k.Pol.MaxRecipients = 200 // the recipient limit is not this property's subject
	k.Net = netProfile(w)
	k.Spec = genLuaSpec(w, avoid)
	k.Lua = k.Spec.render()
	k.Go.Order = []string{"none", "none", "before", "after"}[w.Choose(4)]
	if k.Go.Order != "none" {
		which := 1 + w.Choose(7)
		if which&1 != 0 {
			k.Go.Mail = genGoSMTP(w)
		}
		if which&2 != 0 {
			k.Go.Rcpt = genGoSMTP(w)
		}
		if which&4 != 0 {
			k.Go.Msg = &models.MsgHook{If: models.Cond{Kind: "always"}, Else: models.MsgAnswer{Kind: "nil"}}
			if w.Choose(2) == 1 {
				k.Go.Msg.If = models.Cond{Kind: "to-count-gt", N: 1}
			}
			if w.Choose(3) == 0 {
				k.Go.Msg.Then = models.MsgAnswer{Kind: "nil"}
			} else {
				k.Go.Msg.Then = models.MsgAnswer{Kind: "fresh", SetMailboxes: true, SetFrom: true, SetTo: true, SetSubject: true,
					Mailboxes: []string{"gobox"}, From: "go-from@go.test", To: []string{"go-to@go.test"}, Subject: "go subject"}
			}
		}
	}
	nc := 1 + w.Choose(4)
	if w.Choose(6) == 0 {
		nc = 6 + w.Choose(5) // a burst of sessions: more Lua states in use at once than any pool keeps idle
	}
	tok, budget := 0, 8
	if nc > 4 {
		budget = nc + 2
	}
	for ci := 0; ci < nc; ci++ {
		var txs []c17Txn
		for i, n := 0, 1+w.Choose(3); i < n && budget > 0; i++ {
			budget--
			tok++
			t := c17Txn{Token: fmt.Sprintf("tok%dc%d", tok, ci)}
			local := c17SenderLocals[w.Choose(len(c17SenderLocals))] + fmt.Sprint(ci)
			t.From = local + "@" + c17SenderDomains[w.Choose(len(c17SenderDomains))]
			if w.Choose(10) == 9 {
				t.From, local = "", "null"+fmt.Sprint(ci)
			}
			t.HdrFrm = local + "." + t.Token + "@hdr.test"
			for j, nr := 0, 1+w.Choose(4); j < nr; j++ {
				r := c17RcptLocals[w.Choose(len(c17RcptLocals))]
				if w.Choose(4) == 1 {
					r += "+" + []string{"tag", "x.y"}[w.Choose(2)]
				}
				r += "@" + smtpDomains[w.Choose(len(smtpDomains))]
				dup := false
				for _, o := range t.Rcpts {
					dup = dup || o == r
				}
				if !dup { // verbatim duplicates are C01's subject
					t.Rcpts = append(t.Rcpts, r)
				}
			}
			t.End = []string{"data", "data", "data", "data", "rset"}[w.Choose(5)]
			t.Extra = []int{0, 10, 300}[w.Choose(3)]
			t.Probe = w.Choose(3) == 1
			txs = append(txs, t)
		}
		k.Clients = append(k.Clients, txs)
	}
	return k
}

// c17Exp is what one acknowledged transaction must leave in the store.
type c17Exp struct {
	token, client    string
	res              models.MsgResult
	boxAll, boxStore []string // mailbox per accepted recipient / per accepted recipient that policy stores
	hdrFrom          string
	hdrTo            []string
}

type c17Run struct {
	c                    *Ctx
	k                    *c17Case
	pol                  *models.Policy
	mailChain, rcptChain []models.SMTPListener
	msgChain             []models.MsgListener
	exps                 []*c17Exp
	sent                 map[string]bool // tokens whose data was transmitted
	senders              map[string]string
	changed              int
	kindsSeen            map[string]bool
}

func goSMTPListener(c *Ctx, h *models.SMTPHook) func(event.SMTPSession) *event.SMTPResponse {
	return func(s event.SMTPSession) *event.SMTPResponse {
		var v models.HookView
		if s.From != nil {
			v.From = s.From.Address
		}
		if v.From == luaMutatedFrom {
			c.Failf("smtp/write-by-unanswering-handler-reaches-next-listener", "the Lua handler wrote %q to session.from.address and did not answer; "+
				"the next listener on the broker is handed that sender instead of the session's own", luaMutatedFrom)
		}
		for _, t := range s.To {
			if t != nil {
				v.To = append(v.To, t.Address)
			}
		}
		_, d := h.Eval(v)
		if !d.Answered {
			return nil
		}
		switch d.Action {
		case "allow":
			return &event.SMTPResponse{Action: event.ActionAllow}
		case "deny":
			return &event.SMTPResponse{Action: event.ActionDeny, ErrorCode: d.Code, ErrorMsg: d.Text}
		}
		return &event.SMTPResponse{Action: event.ActionDefer}
	}
}

func goMsgListener(h *models.MsgHook) func(event.InboundMessage) *event.InboundMessage {
	return func(m event.InboundMessage) *event.InboundMessage {
		v := models.HookView{Subject: m.Subject}
		for _, t := range m.To {
			if t != nil {
				v.To = append(v.To, t.Address)
			}
		}
		a := h.Else
		if h.If.Holds(v) {
			a = h.Then
		}
		if a.Kind != "fresh" {
			return nil
		}
		out := &event.InboundMessage{Mailboxes: append([]string{}, a.Mailboxes...), From: &mail.Address{Name: "Go From", Address: a.From}, Subject: a.Subject}
		for _, t := range a.To {
			out.To = append(out.To, &mail.Address{Name: "Go To", Address: t})
		}
		return out
	}
}

var c17Groups = map[string]string{"deny": "deny", "deny-code": "deny", "deny-code-text": "deny", "allow": "allow", "defer": "defer",
	"nil": "nil", "nothing": "nil", "false": "nil", "garbage": "garbage", "error": "error", "edit": "replaced", "fresh": "replaced"}

// groupTag renders the distinct answer groups of a chain for a class string.
func groupTag(kinds []string) string {
	set := map[string]bool{}
	for _, lk := range kinds {
		set[c17Groups[lk[strings.Index(lk, ":")+1:]]] = true
	}
	if len(set) == 0 {
		return "[no-handler]"
	}
	return "[" + strings.Join(sortedKeys(set), ",") + "]"
}

func (r *c17Run) countKinds(where string, kinds []string) {
	for _, lk := range kinds {
		i := strings.Index(lk, ":")
		r.c.Stat("probe.hook."+where+"."+lk, 1)
		r.c.Stat("probe.answer."+c17Groups[lk[i+1:]], 1)
		r.kindsSeen[where+"."+lk] = true
		switch lk {
		case "lua:error":
			r.c.Stat("fault.script_raised_error", 1)
		case "lua:garbage":
			r.c.Stat("fault.script_returned_wrong_type", 1)
		}
	}
}

// checkSMTP compares a MAIL/RCPT reply with what the listener chain and the policy demand.
func (r *c17Run) checkSMTP(name, where, what string, rp reply, d models.Decision, policyAccepts bool, ownFrom string) {
	c := r.c
	r.countKinds(where, d.Kinds)
	if rp.Err != nil {
		c.Failf(where+"/no-reply", "%s: %s got no reply: %v", name, what, rp.Err)
		return
	}
	tag := "[" + d.Who + "]"
	if !d.Answered || d.Action == "defer" {
		tag = groupTag(d.Kinds)
	}
	switch {
	case d.Answered && d.Action == "deny":
		if policyAccepts {
			r.changed++
		}
		if rp.ok2xx() {
			c.Failf(where+"/deny-not-refused"+tag, "%s: %s was denied by listener %q but answered %s", name, what, d.Who, rp)
			return
		}
		if rp.Code < 400 || rp.Code > 599 {
			c.Failf(where+"/deny-not-refused"+tag, "%s: %s was denied by listener %q but the reply %s is no refusal", name, what, d.Who, rp)
			return
		}
		if d.HasCode && rp.Code != d.Code {
			c.Failf(where+"/deny-code-differs"+tag, "%s: %s was denied by listener %q with code %d but answered %s", name, what, d.Who, d.Code, rp)
			return
		}
		if d.HasText && (len(rp.Lines) != 1 || rp.Lines[0] != d.Text) {
			// whose identity does the text carry?
			for _, cn := range keysOf(r.senders) {
				if o := r.senders[cn]; o != ownFrom && o != "" && strings.Contains(rp.Raw, "from="+o) && !strings.Contains(d.Text, "from="+o) {
					c.Failf(where+"/cross-session-leak", "%s (sender <%s>): the deny text of %s carries the sender <%s> of another session: %s", name, ownFrom, what, o, rp)
					return
				}
			}
			c.Failf(where+"/deny-text-differs"+tag, "%s: %s was denied by listener %q with text %q but answered %s", name, what, d.Who, d.Text, rp)
		}
	case d.Answered && d.Action == "allow":
		if !policyAccepts {
			r.changed++
		}
		if !rp.ok2xx() {
			c.Failf(where+"/allow-not-accepted"+tag, "%s: %s was allowed by listener %q (policy accepts: %v) but answered %s", name, what, d.Who, policyAccepts, rp)
		}
	default: // defer or nobody answered: exactly the policy decision
		if policyAccepts && !rp.ok2xx() {
			c.Failf(where+"/policy-accept-not-applied"+tag, "%s: no listener decided %s and policy accepts it, but it was answered %s", name, what, rp)
		} else if !policyAccepts && (rp.ok2xx() || rp.Code < 400 || rp.Code > 599) {
			c.Failf(where+"/policy-refusal-not-applied"+tag, "%s: no listener decided %s and policy refuses it, but it was answered %s", name, what, rp)
		}
	}
}

func (r *c17Run) runClient(ci int, txs []c17Txn) {
	c := r.c
	name := fmt.Sprintf("client%d", ci)
	cl, err := dialSMTP(c, name, 400*time.Second)
	if err != nil {
		c.Failf("dial-refused", "%s: %v", name, err)
		return
	}
	defer cl.close()
	if g := cl.readReply(); g.Code != 220 {
		c.Failf("no-greeting", "%s: expected 220 greeting, got %s", name, g)
		return
	}
	if g := cl.cmd("EHLO " + name + ".sim"); !g.ok2xx() {
		c.Failf("ehlo-refused", "%s: EHLO answered %s", name, g)
		return
	}
	for _, t := range txs {
		_, fromDom, _ := models.SplitAddress(t.From)
		d := models.DecideSMTP(r.mailChain, models.HookView{From: t.From})
		rp := cl.cmd("MAIL FROM:<" + t.From + ">")
		r.checkSMTP(name, "mail", "MAIL FROM:<"+t.From+">", rp, d, r.pol.AcceptOrigin(fromDom), t.From)
		if rp.Err != nil {
			return
		}
		if !rp.ok2xx() {
			if t.Probe {
				if p := cl.cmd("RCPT TO:<" + t.Rcpts[0] + ">"); p.ok2xx() {
					c.Failf("mail/rcpt-accepted-after-refused-mail", "%s: MAIL FROM:<%s> was refused (%s) but the following RCPT was answered %s", name, t.From, rp, p)
				}
			}
			continue
		}
		var accepted []string
		for _, rc := range t.Rcpts {
			_, dom, _ := models.SplitAddress(rc)
			view := models.HookView{From: t.From, To: append(append([]string{}, accepted...), rc)}
			d := models.DecideSMTP(r.rcptChain, view)
			rp := cl.cmd("RCPT TO:<" + rc + ">")
			r.checkSMTP(name, "rcpt", "RCPT TO:<"+rc+">", rp, d, r.pol.AcceptRecipient(dom), t.From)
			if rp.Err != nil {
				return
			}
			if rp.ok2xx() {
				accepted = append(accepted, rc)
			}
		}
		if len(accepted) == 0 || t.End == "rset" {
			if rs := cl.cmd("RSET"); !rs.ok2xx() {
				c.Failf("rset-refused", "%s: RSET answered %s", name, rs)
				return
			}
			continue
		}
		data := mkMessage(t.Token, t.HdrFrm, accepted, t.Extra, uint64(len(t.Token)))
		if rp := cl.cmd("DATA"); rp.Code != 354 {
			c.Failf("data-refused", "%s: DATA with %d accepted recipients answered %s", name, len(accepted), rp)
			return
		}
		r.sent[t.Token] = true
		e := &c17Exp{token: t.Token, client: name, hdrFrom: t.HdrFrm, hdrTo: accepted}
		e.res = models.DecideMsg(r.msgChain, models.HookView{From: t.HdrFrm, To: accepted, Subject: t.Token})
		r.countKinds("msg", e.res.Kinds)
		if e.res.Replaced && !(e.res.MailboxesKnown && e.res.FromKnown && e.res.ToKnown && e.res.SubjectKnown) && e.res.Kind == "fresh" {
			c.Stat("fault.script_returned_partial_message", 1)
		}
		if e.res.Mutated != "" {
			c.Stat("fault.script_wrote_to_argument_then_did_not_answer", 1)
		}
		for _, a := range accepted {
			_, dom, _ := models.SplitAddress(a)
			mb, ok := models.MailboxName(r.k.Naming, a)
			if !ok {
				c.Failf("accepted-unnameable-recipient", "%s: server accepted RCPT <%s>, which names no mailbox", name, a)
				continue
			}
			e.boxAll = append(e.boxAll, mb)
			if r.pol.StoreRecipient(dom) {
				e.boxStore = append(e.boxStore, mb)
			}
		}
		fin := cl.sendData(data)
		if fin.Code != 250 {
			// nothing in this workload (no limits, memory store) justifies refusing the data
			c.Failf("msg/data-not-acknowledged"+groupTag(e.res.Kinds), "%s: message %s (%d accepted recipients) was answered %s", name, t.Token, len(accepted), fin)
			if fin.Err != nil {
				return
			}
			continue
		}
		r.exps = append(r.exps, e)
	}
	cl.cmd("QUIT")
}

func sortedCopy(l []string) []string {
	o := append([]string{}, l...)
	sort.Strings(o)
	return o
}

func sameStrings(a, b []string) bool {
	if len(a) != len(b) {
		return false
	}
	for i := range a {
		if a[i] != b[i] {
			return false
		}
	}
	return true
}

func tokenOfSource(src []byte) string {
	const pre = "Message-Id: <"
	i := bytes.Index(src, []byte(pre))
	if i < 0 {
		return ""
	}
	rest := src[i+len(pre):]
	j := bytes.Index(rest, []byte("@sim>"))
	if j < 0 {
		return ""
	}
	return string(rest[:j])
}

func runC17(c *Ctx, cs Case) {
	k := cs.(*c17Case)
	simnet.Of(c.Sim).Profile = k.Net
	eh := extension.NewHost()
	addGo := func() {
		if k.Go.Mail != nil {
			eh.Events.BeforeMailFromAccepted.AddListener("go", goSMTPListener(c, k.Go.Mail))
		}
		if k.Go.Rcpt != nil {
			eh.Events.BeforeRcptToAccepted.AddListener("go", goSMTPListener(c, k.Go.Rcpt))
		}
		if k.Go.Msg != nil {
			eh.Events.BeforeMessageStored.AddListener("go", goMsgListener(k.Go.Msg))
		}
	}
	if k.Go.Order == "before" {
		addGo()
	}
	if _, err := luahost.NewFromReader(zerolog.Nop(), eh, strings.NewReader(k.Lua), "sim.lua"); err != nil {
		c.Failf("harness/script-does-not-load", "generated script rejected: %v", err)
		return
	}
	if k.Go.Order == "after" {
		addGo()
	}
	st, err := openStore(StoreCfg{Backend: "mem"}, eh)
	if err != nil {
		panic(err)
	}
	root := baseRoot()
	setNaming(root, k.Naming)
	root.SMTP.DefaultAccept, root.SMTP.DefaultStore = k.Pol.DefaultAccept, k.Pol.DefaultStore
	root.SMTP.AcceptDomains, root.SMTP.RejectDomains = k.Pol.AcceptDomains, k.Pol.RejectDomains
	root.SMTP.StoreDomains, root.SMTP.DiscardDomains = k.Pol.StoreDomains, k.Pol.DiscardDomains
	root.SMTP.RejectOriginDomains = k.Pol.RejectOrigin
	root.SMTP.MaxRecipients = k.Pol.MaxRecipients
	env := startSMTP(c, root, st, eh)

	r := &c17Run{c: c, k: k, pol: toModelPolicy(root), sent: map[string]bool{}, senders: map[string]string{}, kindsSeen: map[string]bool{}}
	lua := func() ([]models.SMTPListener, []models.SMTPListener, []models.MsgListener) {
		return []models.SMTPListener{{Name: "lua", Hook: k.Spec.Mail}}, []models.SMTPListener{{Name: "lua", Hook: k.Spec.Rcpt}},
			[]models.MsgListener{{Name: "lua", Hook: k.Spec.Msg}}
	}
	r.mailChain, r.rcptChain, r.msgChain = lua()
	gm, gr, gs := models.SMTPListener{Name: "go", Hook: k.Go.Mail}, models.SMTPListener{Name: "go", Hook: k.Go.Rcpt}, models.MsgListener{Name: "go", Hook: k.Go.Msg}
	switch k.Go.Order {
	case "before":
		r.mailChain = append([]models.SMTPListener{gm}, r.mailChain...)
		r.rcptChain = append([]models.SMTPListener{gr}, r.rcptChain...)
		r.msgChain = append([]models.MsgListener{gs}, r.msgChain...)
	case "after":
		r.mailChain, r.rcptChain, r.msgChain = append(r.mailChain, gm), append(r.rcptChain, gr), append(r.msgChain, gs)
	}
	for ci, txs := range k.Clients {
		for _, t := range txs {
			r.senders[fmt.Sprintf("client%d/%s", ci, t.Token)] = t.From
		}
	}
	for ci, txs := range k.Clients {
		ci, txs := ci, txs
		c.Go(fmt.Sprintf("client%d", ci), func() { r.runClient(ci, txs) })
	}
	c.JoinAll()
	env.stop()
	c.Main.Quiesce() // let the after-event handlers finish
	if c.Failed() {
		return
	}

	// ---- oracle over ALL mailboxes ----
	var names []string
	for _, e := range r.exps {
		names = append(names, e.boxAll...)
		names = append(names, e.res.Mailboxes...)
	}
	sort.Strings(names)
	dump, err := dumpStore(st, names)
	if err != nil {
		c.Failf("store-read-error", "reading the store back: %v", err)
		return
	}
	byToken := map[string][]storedMsg{}
	stored := 0
	for _, b := range keysOf(dump) {
		for _, m := range dump[b] {
			stored++
			tk := tokenOfSource(m.Source)
			if !r.sent[tk] {
				c.Failf("phantom-message", "mailbox %q holds a message (subject %q) that no client sent", b, m.Subject)
				continue
			}
			byToken[tk] = append(byToken[tk], m)
		}
	}
	acked := map[string]bool{}
	for _, e := range r.exps {
		acked[e.token] = true
		r.checkStored(e, byToken[e.token])
	}
	for _, tk := range keysOf(byToken) {
		if !acked[tk] {
			c.Failf("msg/stored-without-acknowledgement", "message %s is stored (%d copies) although its DATA was not answered 250", tk, len(byToken[tk]))
		}
	}
	c.Stat("probe.messages_stored", int64(stored))
	c.Stat("probe.outcomes_changed_by_hooks", int64(r.changed))
	if r.changed > 0 {
		c.NonTrivial(r.changed, strings.Join(sortedKeys(r.kindsSeen), " "), len(k.Clients), k.Naming, k.Go.Order)
	}
	if c.Failed() {
		return
	}
	// ---- deletions, for the after.message_deleted handler: nothing may break ----
	boxes := keysOf(dump)
	if len(boxes) > 0 {
		m := dump[boxes[0]][0]
		if err := st.RemoveMessage(m.Mailbox, m.ID); err != nil {
			c.Failf("remove-failed", "removing %s/%s: %v", m.Mailbox, m.ID, err)
		}
		if err := st.PurgeMessages(boxes[len(boxes)-1]); err != nil {
			c.Failf("purge-failed", "purging %s: %v", boxes[len(boxes)-1], err)
		}
		c.Main.Quiesce()
	}
}

func oneOf(got string, alts ...string) bool {
	for _, a := range alts {
		if got == a {
			return true
		}
	}
	return false
}

// checkStored compares the stored copies of one acknowledged message with the model.
func (r *c17Run) checkStored(e *c17Exp, got []storedMsg) {
	c := r.c
	res := e.res
	tag := groupTag(res.Kinds)
	if res.Replaced {
		tag = "[" + res.Kind + " by " + res.Who + "]"
	}
	var gotBoxes []string
	for _, m := range got {
		gotBoxes = append(gotBoxes, m.Mailbox)
	}
	sort.Strings(gotBoxes)
	// which mailbox multisets are legal
	var legal [][]string
	switch {
	case !res.Replaced:
		legal = [][]string{e.boxStore}
	case res.MailboxesKnown:
		legal = [][]string{res.Mailboxes}
	case res.Kind == "edit": // returned as passed in; the statement does not say whether discarded recipients are passed in
		legal = [][]string{e.boxAll, e.boxStore}
	default: // fresh message, mailboxes never set: the hook returned no mailbox, "exactly the mailboxes the hook returned" is none
		legal = [][]string{nil}
	}
	okBoxes := false
	for _, l := range legal {
		okBoxes = okBoxes || sameStrings(gotBoxes, sortedCopy(l))
	}
	if !okBoxes {
		var want []string
		for _, l := range legal {
			want = append(want, fmt.Sprint(sortedCopy(l)))
		}
		how := "policy decides"
		if res.Replaced {
			how = fmt.Sprintf("listener %q returned a message", res.Who)
			r.changed++
		}
		cls := "msg/stored-in-wrong-mailboxes"
		if len(gotBoxes) < len(sortedCopy(legal[0])) && !res.Replaced {
			cls = "msg/mail-lost"
		}
		c.Failf(cls+tag, "%s message %s (%s; accepted recipients %v): stored in mailboxes %v, expected %s", e.client, e.token, how, e.hdrTo, gotBoxes, strings.Join(want, " or "))
		return
	}
	if res.Replaced && !sameStrings(gotBoxes, sortedCopy(e.boxStore)) {
		r.changed++
	}
	for _, m := range got {
		id := fmt.Sprintf("%s message %s in mailbox %q", e.client, e.token, m.Mailbox)
		wantFrom, wantSubj, wantTo := []string{e.hdrFrom}, []string{e.token}, [][]string{e.hdrTo}
		if res.Replaced {
			if res.FromKnown {
				wantFrom = []string{res.From}
			} else {
				wantFrom = []string{"", e.hdrFrom}
			}
			if res.SubjectKnown {
				wantSubj = []string{res.Subject}
			} else {
				wantSubj = []string{"", e.token}
			}
			if res.ToKnown {
				wantTo = [][]string{res.To}
			} else {
				wantTo = [][]string{nil, e.hdrTo}
			}
			if res.FromKnown && res.From != e.hdrFrom || res.SubjectKnown && res.Subject != e.token || res.ToKnown && !sameStrings(res.To, e.hdrTo) {
				r.changed++
			}
		}
		if !res.Replaced && strings.Contains(res.Mutated, "nested") && m.From == luaMutatedFrom {
			// one defect, one class, whatever way the handler then failed to answer
			c.Failf("msg/write-by-unanswering-handler-stored", "%s: the handler wrote %q to msg.from.address and then did not answer (%v), yet the message is stored with that sender instead of <%s>",
				id, luaMutatedFrom, res.Kinds, e.hdrFrom)
		}
		if !oneOf(m.From, wantFrom...) {
			c.Failf("msg/sender-differs"+tag, "%s: sender is <%s>, expected %q (replaced=%v by %q)", id, m.From, wantFrom, res.Replaced, res.Who)
		}
		if !oneOf(m.Subject, wantSubj...) {
			c.Failf("msg/subject-differs"+tag, "%s: subject is %q, expected %q (replaced=%v by %q)", id, m.Subject, wantSubj, res.Replaced, res.Who)
		}
		okTo := false
		for _, w := range wantTo {
			okTo = okTo || sameStrings(m.To, w)
		}
		if !okTo {
			c.Failf("msg/recipients-differ"+tag, "%s: recipients are %v, expected %v (replaced=%v by %q)", id, m.To, wantTo, res.Replaced, res.Who)
		}
	}
}

func init() {
	register(&Prop{
		ID:    "C17",
		Level: "exploration",
		Gen:   genC17,
		Run:   runC17,
		Config: func(cs Case) simrt.Config {
			return simrt.Config{NoJumps: true, MaxSteps: 400000, MaxSimTime: 6 * time.Hour}
		},
		BudgetIsViolation: true,
		QuickRuns:         6000,
		ThoroughRuns:      120000,
		RaceCompanion:     "C17R",
		Rule: "a Lua script drawn from a grammar (any subset of the five handlers; MAIL/RCPT handlers of the form 'if <condition on this session's sender / current " +
			"recipient / recipient count> then A else B' with A,B in allow, deny(), deny(code), deny(code, text echoing the session's own sender / recipient / count), " +
			"defer, nil, nothing, 11 wrong-typed values, 7 ways of raising an error, optionally after writing to the session object; before.message_stored returning " +
			"nil/false/nothing/garbage/error (optionally after writing to its argument, top-level or through msg.from), the same message with any non-empty subset of " +
			"mailboxes/subject/from/to edited, or a fresh inbound_message with any non-empty subset set; after-handlers that read, fail or tamper) is loaded with " +
			"luahost.NewFromReader; optionally Go listeners with fixed answers sit before or after \"lua\" on the three before-brokers; the real SMTP server on the " +
			"simulated network with the real memory store serves 1-4 concurrent reply-driven sessions (<= 8 transactions, 1-4 recipients each, senders/recipients " +
			"hitting and missing the script's conditions and the accept/reject/store/discard/reject-origin lists); swarm: script, lists, naming mode, listener order, " +
			"sessions, network profile. Every MAIL/RCPT reply is compared with hookmodel+policy (deny: code and text literally, default deny: refusal class only; " +
			"allow: 2xx; defer/no answer/garbage/error: the policy's 2xx vs 4xx-5xx); at quiescence every acknowledged message must be stored in exactly the returned " +
			"(or, unanswered, the policy's) mailboxes with the returned (or original) sender, recipients, subject; nothing else may be stored. " +
			"non-trivial = at least one hook answer changed an outcome relative to pure policy",
		Real: []string{"pkg/extension", "pkg/extension/luahost", "gopher-lua", "pkg/server/smtp", "pkg/message", "pkg/policy", "pkg/storage/mem", "net/textproto"},
		Stub: []string{"TCP (simnet listener/conn)", "scheduler", "sync", "clock"},
		Assumptions: []string{
			"at RCPT the session's 'to' list ends with the recipient being decided (the only way a handler can see it)",
			"a handler's deny without arguments fixes no code or text; only the refusal class is checked",
			"a message returned unchanged in a field carries the value Inbucket passed in: header From, header To (made equal to the accepted envelope recipients), Subject; " +
				"for unchanged mailboxes both 'all accepted recipients' and 'recipients that policy stores' are accepted; an unset sender, subject or recipient list of a fresh message may be stored empty or as the original; a fresh message whose mailboxes were never set is delivered nowhere",
			"addresses are syntactically valid and lower-case, no verbatim duplicate recipients, recipient limit out of reach (C01/C03/C04 cover those)",
			"Lua code itself runs without scheduling points (gopher-lua is not instrumented): interleavings are at pool locks, broker locks and connection operations; " +
				"the data-race clause needs race mode and is not decided by this check",
			"scripts do not use Lua globals to carry state between invocations (pooled states make that unspecified), nor the http/channel modules",
		},
	})
}

func init() {
	register(&Prop{
		ID:    "C17R",
		Level: "exploration",
		Gen: func(w *simrt.Choices, tier string, avoid map[string]bool) Case {
			return genC17(w, tier, avoid)
		},
		Run: runC17,
		Config: func(cs Case) simrt.Config {
			return simrt.Config{NoJumps: true, MaxSteps: 400000, MaxSimTime: 6 * time.Hour}
		},
		RaceMode:     true,
		RaceStackPkg: "extension/luahost",
		QuickRuns:    1500,
		ThoroughRuns: 30000,
		Rule: "race-mode companion of C17 (\"handlers invoked from many sessions at once never corrupt each other's state\"): the same generated scripts and " +
			"concurrent SMTP sessions in a -race binary. Lua code has no scheduling point, so two sessions never interleave inside a handler in the simulation; " +
			"ThreadSanitizer decides by happens-before instead: the simulator's hand-off is hidden from it, Inbucket's own synchronisation (the state pool's " +
			"channel/mutex, broker locks) is published, and a report whose two access stacks both pass through pkg/extension/luahost means two sessions used the " +
			"same Lua state (or other luahost data) with nothing in Inbucket ordering them",
		Real: []string{"pkg/extension/luahost", "gopher-lua", "pkg/extension", "pkg/server/smtp", "pkg/storage/mem"},
		Stub: []string{"TCP (simnet)", "scheduler", "sync (edges published to ThreadSanitizer)", "clock"},
	})
}

func keysOf[V any](m map[string]V) []string {
	l := make([]string, 0, len(m))
	for k := range m {
		l = append(l, k)
	}
	sort.Strings(l)
	return l
}
