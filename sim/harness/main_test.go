//go:debug asynctimerchan=0

package harness

import (
	"encoding/json"
	"flag"
	"fmt"
	"os"
	"sort"
	"strings"
	"testing"
	"time"

	"github.com/inbucket/inbucket/v3/vsim/simrt"
	"github.com/inbucket/inbucket/v3/vsim/simrun"
)

var (
	fProp     = flag.String("prop", "", "property id")
	fTier     = flag.String("tier", "quick", "quick|thorough")
	fSeed     = flag.Uint64("seed", 1, "base seed (VERIF_SEED)")
	fFrom     = flag.Int("from", 0, "first run index")
	fTo       = flag.Int("to", 1, "one past the last run index")
	fOut      = flag.String("out", "", "result file (JSON)")
	fReplay   = flag.String("replay", "", "replay file to re-execute")
	fMinimize = flag.String("minimize", "", "replay file to minimise (result written to -out)")
	fBudgetMs = flag.Int("budget-ms", 0, "stop starting runs after this much wall clock")
	fAvoid    = flag.String("avoid", "", "comma separated generator avoid switches")
	fVerbose  = flag.Bool("v2", false, "print every run")
	fList     = flag.Bool("list", false, "list properties as JSON")
	fHashes   = flag.Bool("hashes", false, "record a fingerprint of every run (determinism self-test)")
)

// Failure is one failing run as written to worker output and replay files.
type Failure struct {
	Property string   `json:"property"`
	Tier     string   `json:"tier"`
	Seed     uint64   `json:"seed"`
	Run      int      `json:"run"`
	Class    string   `json:"class"`
	Msg      string   `json:"msg"`
	Avoid    string   `json:"avoid"`
	W        []uint32 `json:"W"`
	S        []uint32 `json:"S"`
	LogHash  string   `json:"log_hash"`
	Case     []string `json:"case"`
	Log      []string `json:"log"`
	Blocked  []string `json:"blocked,omitempty"`
	Stack    string   `json:"stack,omitempty"`
	MinInfo  string   `json:"minimised,omitempty"`
	// BatchFrom (race mode): first run of the worker batch the failing run was
	// part of.  ThreadSanitizer's verdict depends on what the process did before
	// (see doReplay), so a replay re-executes the batch up to the failing run.
	BatchFrom *int `json:"batch_from,omitempty"`
}

// WorkerOut is what one worker process reports.
type WorkerOut struct {
	Property  string         `json:"property"`
	Tier      string         `json:"tier"`
	Seed      uint64         `json:"seed"`
	From      int            `json:"from"`
	To        int            `json:"to"`
	Done      int            `json:"done"`
	Stats     *Stats         `json:"stats"`
	Failures  []Failure      `json:"failures"`
	FailCount map[string]int `json:"fail_count"`
	RunHashes map[int]string `json:"run_hashes,omitempty"`
}

func avoidSet(s string) map[string]bool {
	m := map[string]bool{}
	for _, a := range strings.Split(s, ",") {
		if a = strings.TrimSpace(a); a != "" {
			m[a] = true
		}
	}
	return m
}

func runOne(t *testing.T, p *Prop, tier string, W, S *simrt.Choices, avoid map[string]bool, st *Stats) Outcome {
	cs := p.Gen(W, tier, avoid)
	var cfg simrt.Config
	if p.Config != nil {
		cfg = p.Config(cs)
	}
	ctx := &Ctx{Tier: tier, Avoid: avoid, st: st}
	racesBefore := simrt.RaceErrors()
	raceLogBefore := raceLogSize()
	start := time.Now()
	res := simrun.Run(t, cfg, S, func(mt *simrt.Task) {
		ctx.Sim = mt.Sim()
		ctx.Main = mt
		ctx.Sim.LogNorm = newIDNormaliser()
		p.Run(ctx, cs)
	})
	ctx.post = true
	ctx.schedHash = res.SchedHash
	if p.Post != nil && res.Verdict == simrt.VOK && ctx.viol == nil {
		p.Post(ctx, cs)
	}
	out := Outcome{Res: res, W: W.Rec, Case: cs, WallNs: int64(time.Since(start)), SimTimeNs: int64(res.SimTime)}
	switch {
	case raceViolation(p, racesBefore, raceLogBefore, &out):
	case ctx.viol != nil:
		out.Viol = ctx.viol
	case res.Verdict == simrt.VCrash:
		out.Viol = &Violation{Class: p.ID + "/" + crashClass(res.CrashMsg, res.CrashStk),
			Msg: fmt.Sprintf("task %q panicked: %s", res.CrashTask, res.CrashMsg)}
	case res.Verdict == simrt.VDeadlock:
		out.Viol = &Violation{Class: p.ID + "/deadlock:" + blockedSummary(res.Blocked),
			Msg: "every task is blocked and no timer is pending: " + strings.Join(res.Blocked, "; ")}
	case res.Verdict == simrt.VSteps || res.Verdict == simrt.VSimTime:
		if p.BudgetIsViolation {
			out.Viol = &Violation{Class: p.ID + "/wedge:" + res.Verdict.String(),
				Msg: "run did not finish within its budget: " + strings.Join(res.Blocked, "; ")}
		} else {
			out.Inconcl = true
		}
	}
	if ctx.inconclusive && out.Viol == nil {
		out.Inconcl = true
	}
	st.Runs++
	st.Steps += int64(res.Steps)
	st.SimTimeNs += int64(res.SimTime)
	st.Decisions2 += int64(res.Choices2)
	st.Verdicts[res.Verdict.String()]++
	if out.Inconcl {
		st.Inconcl++
	}
	for k, v := range res.Counters {
		st.Counters[k] += v
	}
	if res.Choices2 > 0 {
		m := st.Sets["schedules"]
		if m == nil {
			m = map[uint64]struct{}{}
			st.Sets["schedules"] = m
		}
		m[res.SchedHash] = struct{}{}
	}
	return out
}

// raceViolation turns a ThreadSanitizer report whose two conflicting accesses
// are both in Inbucket code into a violation; reports about the harness's own
// bookkeeping are counted and ignored.
func raceViolation(p *Prop, racesBefore int, logBefore int64, out *Outcome) bool {
	if simrt.RaceErrors() <= racesBefore {
		return false
	}
	cls, detail := raceReport(logBefore, p.RaceStackPkg)
	if cls == "" {
		return false
	}
	out.Viol = &Violation{Class: p.ID + "/data-race:" + cls, Msg: "ThreadSanitizer reported a data race on this schedule:\n" + detail}
	return true
}

func blockedSummary(bl []string) string {
	set := map[string]bool{}
	for _, b := range bl {
		if i := strings.LastIndex(b, "("); i >= 0 {
			set[strings.TrimSuffix(b[i+1:], ")")] = true
		}
	}
	var l []string
	for k := range set {
		l = append(l, k)
	}
	sort.Strings(l)
	return strings.Join(l, ",")
}

func mkFailure(p *Prop, tier string, seed uint64, run int, avoid string, o Outcome) Failure {
	return Failure{Property: p.ID, Tier: tier, Seed: seed, Run: run, Class: o.Viol.Class, Msg: o.Viol.Msg, Avoid: avoid,
		W: o.W, S: o.Res.S, LogHash: fmt.Sprintf("%016x", o.Res.LogHash), Case: clip(o.Case.Describe(), 400),
		Log: tail(o.Res.Log, 300), Blocked: o.Res.Blocked, Stack: o.Res.CrashStk}
}

func clip(l []string, n int) []string {
	if len(l) > n {
		return append(append([]string{}, l[:n]...), fmt.Sprintf("... (%d more lines)", len(l)-n))
	}
	return l
}

func tail(l []string, n int) []string {
	if len(l) > n {
		return append([]string{fmt.Sprintf("... (%d earlier lines)", len(l)-n)}, l[len(l)-n:]...)
	}
	return l
}

func writeJSON(path string, v interface{}) {
	b, err := json.MarshalIndent(v, "", " ")
	if err != nil {
		panic(err)
	}
	if path == "" {
		os.Stdout.Write(b)
		return
	}
	if err := os.WriteFile(path, b, 0o644); err != nil {
		panic(err)
	}
}

// TestSim is the worker entry point.
func TestSim(t *testing.T) {
	if *fList {
		type pi struct {
			ID, Level, Rule         string
			QuickRuns, ThoroughRuns int
			Real, Stub, Assumptions []string
			BudgetIsViolation       bool
			RaceMode                bool
			RaceCompanion           string
			Companions              []string
			EvalCounter             string
		}
		var l []pi
		for _, p := range props {
			l = append(l, pi{p.ID, p.Level, p.Rule, p.QuickRuns, p.ThoroughRuns, p.Real, p.Stub, p.Assumptions, p.BudgetIsViolation, p.RaceMode, p.RaceCompanion, p.Companions, p.EvalCounter})
		}
		sort.Slice(l, func(i, j int) bool { return l[i].ID < l[j].ID })
		writeJSON(*fOut, l)
		return
	}
	if *fProp == "" {
		t.Skip("no -prop given")
	}
	p := props[*fProp]
	if p == nil {
		fmt.Fprintf(os.Stderr, "unknown property %q\n", *fProp)
		os.Exit(2)
	}
	switch {
	case *fReplay != "":
		doReplay(t, p)
	case *fMinimize != "":
		doMinimize(t, p)
	default:
		doRuns(t, p)
	}
}

func doRuns(t *testing.T, p *Prop) {
	st := newStats(p.ID)
	avoid := avoidSet(*fAvoid)
	out := &WorkerOut{Property: p.ID, Tier: *fTier, Seed: *fSeed, From: *fFrom, To: *fTo, Stats: st, FailCount: map[string]int{}}
	wall := time.Now()
	for run := *fFrom; run < *fTo; run++ {
		if *fBudgetMs > 0 && time.Since(wall) > time.Duration(*fBudgetMs)*time.Millisecond {
			break
		}
		sd := mixSeed(*fSeed, run)
		W := simrt.NewChoices(sd)
		S := simrt.NewChoices(sd ^ 0x5DEECE66D)
		o := runOne(t, p, *fTier, W, S, avoid, st)
		out.Done++
		if *fHashes {
			if out.RunHashes == nil {
				out.RunHashes = map[int]string{}
			}
			cls := ""
			if o.Viol != nil {
				cls = o.Viol.Class
			}
			out.RunHashes[run] = fmt.Sprintf("%016x:%016x:%d:%s:%s", o.Res.LogHash, o.Res.SchedHash, o.Res.Steps, o.Res.Verdict, cls)
		}
		if run < 3 || (run%97 == 0 && len(st.Samples) < 6) {
			st.Samples = append(st.Samples, clip(o.Case.Describe(), 60))
		}
		if *fVerbose {
			fmt.Printf("run %d seed %d verdict %s steps %d viol %v\n", run, sd, o.Res.Verdict, o.Res.Steps, o.Viol)
		}
		if o.Viol != nil {
			out.FailCount[o.Viol.Class]++
			if out.FailCount[o.Viol.Class] == 1 && len(out.Failures) < 6 {
				fl := mkFailure(p, *fTier, *fSeed, run, *fAvoid, o)
				if p.RaceMode {
					bf := *fFrom
					fl.BatchFrom = &bf
				}
				out.Failures = append(out.Failures, fl)
			}
			total := 0
			for _, n := range out.FailCount {
				total += n
			}
			if total >= 40 {
				break
			}
		}
	}
	st.WallNs = int64(time.Since(wall))
	st.finish()
	writeJSON(*fOut, out)
}

func loadFailure(path string) Failure {
	b, err := os.ReadFile(path)
	if err != nil {
		fmt.Fprintln(os.Stderr, err)
		os.Exit(2)
	}
	var f Failure
	if err := json.Unmarshal(b, &f); err != nil {
		fmt.Fprintln(os.Stderr, err)
		os.Exit(2)
	}
	return f
}

func replayOnce(t *testing.T, p *Prop, f Failure, W, S []uint32) Outcome {
	st := newStats(p.ID)
	return runOne(t, p, f.Tier, simrt.ReplayChoices(W), simrt.ReplayChoices(S), avoidSet(f.Avoid), st)
}

func doReplay(t *testing.T, p *Prop) {
	f := loadFailure(*fReplay)
	if p.RaceMode && f.BatchFrom != nil {
		// ThreadSanitizer judges by happens-before, and what the process did before
		// matters: the first pass through lazily initialised state (sync.Once,
		// encoding/gob's type cache, pools) orders the tasks that run into it, and a
		// racing pair is reported once per process.  The recorded run was one of a
		// worker's batch; every run is a function of (seed, index), so the batch is
		// executed again up to the failing run, whose recorded choices are then
		// replayed.  A report of the same class anywhere in that prefix counts.
		st := newStats(p.ID)
		for run := *f.BatchFrom; run < f.Run; run++ {
			sd := mixSeed(f.Seed, run)
			po := runOne(t, p, f.Tier, simrt.NewChoices(sd), simrt.NewChoices(sd^0x5DEECE66D), avoidSet(f.Avoid), st)
			if po.Viol != nil && po.Viol.Class == f.Class {
				fmt.Printf("REPLAY note: class %q already reported by run %d of the batch\n", f.Class, run)
			}
		}
	}
	o := replayOnce(t, p, f, f.W, f.S)
	class, msg := "", ""
	if o.Viol != nil {
		class, msg = o.Viol.Class, o.Viol.Msg
	}
	res := map[string]interface{}{"class": class, "msg": msg, "log_hash": fmt.Sprintf("%016x", o.Res.LogHash),
		"expected_class": f.Class, "expected_log_hash": f.LogHash, "log": tail(o.Res.Log, 300), "case": clip(o.Case.Describe(), 400)}
	writeJSON(*fOut, res)
	fmt.Printf("REPLAY class=%q loghash=%016x expected_class=%q expected_loghash=%s\n", class, o.Res.LogHash, f.Class, f.LogHash)
}
