package harness

import (
	"bufio"
	"context"
	"fmt"
	"strings"
	"time"

	"github.com/inbucket/inbucket/v3/pkg/config"
	"github.com/inbucket/inbucket/v3/pkg/server/pop3"
	"github.com/inbucket/inbucket/v3/pkg/storage"
	"github.com/inbucket/inbucket/v3/vsim/simnet"
	"github.com/inbucket/inbucket/v3/vsim/simrt"
)

// pop3Env is a running POP3 server inside the simulation.
type pop3Env struct {
	c      *Ctx
	cfg    config.POP3
	srv    *pop3.Server
	cancel context.CancelFunc
	start  *simrt.Task
}

// startPOP3 starts the real POP3 server (Start -> serve -> Accept ->
// startSession) on the simulated network.  TLS is never enabled.
func startPOP3(c *Ctx, cfg config.POP3, st storage.Store) *pop3Env {
	e := &pop3Env{c: c, cfg: cfg}
	srv, err := pop3.NewServer(cfg, st)
	if err != nil {
		panic(err)
	}
	e.srv = srv
	ctx, cancel := context.WithCancel(context.Background())
	e.cancel = cancel
	ready := false
	e.start = simrt.Go("pop3.Start", func() { srv.Start(ctx, func() { ready = true }) })
	c.Main.Quiesce()
	if !ready {
		panic("harness: POP3 server did not become ready")
	}
	return e
}

// stop closes the listener and waits until every session has ended.
func (e *pop3Env) stop() {
	e.cancel()
	e.srv.Drain()
}

// popReply is one POP3 reply as the client saw it.  Only RFC 1939 framing is
// interpreted: the status indicator of the first line and, for multi-line
// replies, the terminating line consisting of a single dot.
type popReply struct {
	OK      bool     // first line starts with +OK
	Neg     bool     // first line starts with -ERR
	First   string   // first line without CRLF
	Body    []string // lines of a multi-line reply, without CRLF, still dot-stuffed
	Err     error    // transport error; the reply is incomplete
	InMulti bool     // Err happened after a +OK that announces a multi-line reply
	BadLine string   // a line that is not terminated by CRLF (framing)
}

func (r popReply) String() string {
	s := clipStr(r.First, 100)
	if len(r.Body) > 0 {
		s += fmt.Sprintf(" (+%d lines)", len(r.Body))
	}
	if r.Err != nil {
		s += fmt.Sprintf(" <%v>", r.Err)
	}
	return s
}

// pop3Client is a reply-driven scripted client on a simulated connection.
type pop3Client struct {
	c       *Ctx
	name    string
	conn    *simnet.Conn
	br      *bufio.Reader
	timeout time.Duration // read/write deadline per operation
	// a slow but steady reader: while reading a multi-line reply it pauses slowBy after every slowChunk bytes
	slowChunk int
	slowBy    time.Duration
	slowAcc   int
}

func dialPOP3(c *Ctx, name string, timeout time.Duration) (*pop3Client, error) {
	conn, err := simnet.Dial(pop3Addr)
	if err != nil {
		return nil, err
	}
	return &pop3Client{c: c, name: name, conn: conn, br: bufio.NewReaderSize(conn, 512), timeout: timeout}, nil
}

func (cl *pop3Client) logf(format string, a ...interface{}) {
	cl.c.Logf("%s %s", cl.name, fmt.Sprintf(format, a...))
}

// readLine reads one line under a read deadline; the returned text has the
// CRLF removed, crlf reports whether it was there.
func (cl *pop3Client) readLine() (text string, crlf bool, err error) {
	_ = cl.conn.SetReadDeadline(time.Now().Add(cl.timeout))
	line, err := cl.br.ReadString('\n')
	if err != nil {
		return line, false, err
	}
	if strings.HasSuffix(line, "\r\n") {
		return line[:len(line)-2], true, nil
	}
	return line[:len(line)-1], false, nil
}

// readReply reads one reply; multi says whether a positive reply is multi-line.
func (cl *pop3Client) readReply(multi bool) popReply {
	var r popReply
	first, crlf, err := cl.readLine()
	r.First = first
	if err != nil {
		r.Err = err
		cl.logf("<- %s", r)
		return r
	}
	if !crlf {
		r.BadLine = first
	}
	r.OK = strings.HasPrefix(first, "+OK")
	r.Neg = strings.HasPrefix(first, "-ERR")
	if r.OK && multi {
		for {
			ln, crlf, err := cl.readLine()
			if err != nil {
				r.Err, r.InMulti = err, true
				break
			}
			if !crlf && r.BadLine == "" {
				r.BadLine = ln
			}
			if ln == "." {
				break
			}
			r.Body = append(r.Body, ln)
			if cl.slowChunk > 0 {
				if cl.slowAcc += len(ln) + 2; cl.slowAcc >= cl.slowChunk {
					cl.slowAcc = 0
					simrt.Sleep(cl.slowBy)
				}
			}
		}
	}
	cl.logf("<- %s", r)
	return r
}

// readGreeting reads the greeting line.  Its text carries the process id and
// is therefore kept out of the event log.
func (cl *pop3Client) readGreeting() popReply {
	var r popReply
	first, crlf, err := cl.readLine()
	r.First, r.Err = first, err
	if err == nil && !crlf {
		r.BadLine = first
	}
	r.OK = err == nil && strings.HasPrefix(first, "+OK")
	cl.logf("<- greeting ok=%v err=%v", r.OK, err)
	return r
}

// send writes one command line with the given terminator.
func (cl *pop3Client) send(line, term string) error {
	cl.logf("-> %q", clipStr(line, 100)+term)
	_ = cl.conn.SetWriteDeadline(time.Now().Add(cl.timeout))
	// A long line is written without artificial segmentation and delay: over
	// a small buffer with seconds of delay per segment it would take longer
	// than the idle timeout to arrive, and the server would be right to give
	// up on it.  Short lines (one buffer) arrive within the profile's MaxDelay.
	cl.conn.Raw = len(line) > 48
	_, err := cl.conn.Write([]byte(line + term))
	cl.conn.Raw = false
	return err
}

// waitEOF reads and discards until the server closes; reports whether the end
// of the stream (or a reset) was seen before the read deadline.
func (cl *pop3Client) waitEOF() bool {
	for i := 0; i < 100000; i++ {
		_, _, err := cl.readLine()
		if err != nil {
			if ne, ok := err.(interface{ Timeout() bool }); ok && ne.Timeout() {
				return false
			}
			return true
		}
	}
	return false
}

// popVerb splits a command line the way RFC 1939 defines it: a keyword,
// case-insensitive, followed by arguments separated by single spaces.
func popVerb(line string) (verb string, args []string) {
	w := strings.Split(line, " ")
	return strings.ToUpper(w[0]), w[1:]
}

// popMulti reports whether a positive reply to line is a multi-line reply.
func popMulti(line string) bool {
	verb, args := popVerb(line)
	switch verb {
	case "RETR", "TOP", "CAPA":
		return true
	case "LIST", "UIDL":
		return len(args) == 0
	}
	return false
}
