package harness

import (
	"fmt"
	"os"
	"sort"
	"strconv"
	"strings"
	"time"

	"github.com/inbucket/inbucket/v3/pkg/config"
	"github.com/inbucket/inbucket/v3/pkg/extension"
	"github.com/inbucket/inbucket/v3/pkg/extension/event"
	"github.com/inbucket/inbucket/v3/vsim/models"
	"github.com/inbucket/inbucket/v3/vsim/simnet"
	"github.com/inbucket/inbucket/v3/vsim/simrt"
)

// C05: accept, reject and store decisions follow the configured domain policy
// exactly (configuration loaded from the environment by config.Process).

type c05Txn struct {
	From  string
	Rcpts []string
	End   string // data rset ehlo
	Token string
}

type c05Case struct {
	Hook  string            // "" | "allow" | "defer": a BeforeRcptToAccepted listener answering that for every recipient
	Env   map[string]string // INBUCKET_* variables
	Pol   models.Policy     // what the documentation says these variables mean
	Net   simnet.Profile
	Store StoreCfg
	Txns  []c05Txn
}

func (k *c05Case) Describe() []string {
	var l []string
	var keys []string
	for e := range k.Env {
		keys = append(keys, e)
	}
	sort.Strings(keys)
	for _, e := range keys {
		l = append(l, e+"="+k.Env[e])
	}
	l = append(l, profileString(k.Net)+" store="+k.Store.String()+" rcpt-hook="+k.Hook)
	for i, t := range k.Txns {
		l = append(l, fmt.Sprintf("txn%d MAIL<%s> RCPT%v end=%s token=%s", i, t.From, t.Rcpts, t.End, t.Token))
	}
	return l
}

var c05Domains = []string{"alpha.test", "beta.test", "Gamma.Test", "delta.example", "eps.org", "sub.alpha.test", "zeta.io"}
var c05Patterns = []string{"bad.org", "*.Spam.Test", "b?d.net", "*evil*", "exact.Example", "a*b*c.com", "?", "*"}
var c05OriginDomains = []string{"good.org", "bad.org", "BAD.ORG", "x.spam.test", "X.SPAM.TEST", "spam.test", "bad.net", "bed.net", "baad.net", "evil.com",
	"notevil.org", "exact.example", "exact.examplex", "abc.com", "axxbyyc.com", "abcd.com", "q"}

func randCase(w *simrt.Choices, s string) string {
	switch w.Choose(3) {
	case 0:
		return strings.ToLower(s)
	case 1:
		return strings.ToUpper(s)
	}
	return mixCase(w, s)
}

func genC05(w *simrt.Choices, tier string, avoid map[string]bool) Case {
	k := &c05Case{Env: map[string]string{}, Net: netProfile(w), Store: StoreCfg{Backend: []string{"mem", "file"}[w.Choose(2)]}}
	p := &k.Pol
	p.DefaultAccept = w.Choose(2) == 0
	p.DefaultStore = w.Choose(2) == 0
	pick := func() []string {
		var out []string
		for _, d := range c05Domains {
			if w.Choose(3) == 0 {
				out = append(out, randCase(w, d))
			}
		}
		return out
	}
	p.AcceptDomains, p.RejectDomains, p.StoreDomains, p.DiscardDomains = pick(), pick(), pick(), pick()
	for _, pat := range c05Patterns[:6] {
		if w.Choose(4) == 0 {
			p.RejectOrigin = append(p.RejectOrigin, randCase(w, pat))
		}
	}
	if w.Choose(12) == 0 {
		p.RejectOrigin = append(p.RejectOrigin, c05Patterns[6+w.Choose(2)])
	}
	if w.Choose(4) == 0 {
		// a domain that also occurs as a recipient domain: the sender rule and the
		// recipient rules are separate decisions about the same name
		p.RejectOrigin = append(p.RejectOrigin, randCase(w, c05Domains[w.Choose(len(c05Domains))]))
	}
	p.MaxRecipients = 1 + w.Choose(4)
	b := func(v bool) string { return strconv.FormatBool(v) }
	k.Env["INBUCKET_SMTP_DEFAULTACCEPT"] = b(p.DefaultAccept)
	k.Env["INBUCKET_SMTP_DEFAULTSTORE"] = b(p.DefaultStore)
	k.Env["INBUCKET_SMTP_ACCEPTDOMAINS"] = strings.Join(p.AcceptDomains, ",")
	k.Env["INBUCKET_SMTP_REJECTDOMAINS"] = strings.Join(p.RejectDomains, ",")
	k.Env["INBUCKET_SMTP_STOREDOMAINS"] = strings.Join(p.StoreDomains, ",")
	k.Env["INBUCKET_SMTP_DISCARDDOMAINS"] = strings.Join(p.DiscardDomains, ",")
	k.Env["INBUCKET_SMTP_REJECTORIGINDOMAINS"] = strings.Join(p.RejectOrigin, ",")
	k.Env["INBUCKET_SMTP_MAXRECIPIENTS"] = strconv.Itoa(p.MaxRecipients)
	k.Env["INBUCKET_SMTP_ADDR"] = smtpAddr
	k.Env["INBUCKET_SMTP_DOMAIN"] = "inbucket.sim"
	k.Env["INBUCKET_SMTP_TIMEOUT"] = "120s"
	k.Env["INBUCKET_MAILBOXNAMING"] = "local"
	k.Hook = []string{"", "", "", "allow", "defer"}[w.Choose(5)]
	tok := 0
	for i, n := 0, 1+w.Choose(5); i < n; i++ {
		tok++
		t := c05Txn{Token: fmt.Sprintf("tok%d", tok)}
		t.From = "sender" + strconv.Itoa(i) + "@" + c05OriginDomains[w.Choose(len(c05OriginDomains))]
		if w.Choose(4) == 0 {
			t.From = "sender" + strconv.Itoa(i) + "@" + randCase(w, c05Domains[w.Choose(len(c05Domains))])
		}
		if w.Choose(10) == 0 {
			t.From = ""
		}
		for j, nr := 0, 1+w.Choose(6); j < nr; j++ {
			d := c05Domains[w.Choose(len(c05Domains))]
			if w.Choose(6) == 0 {
				d = []string{"unlisted.test", "alpha.testx", "xalpha.test", "alpha.tes"}[w.Choose(4)]
			}
			if w.Choose(8) == 0 {
				d = c05OriginDomains[w.Choose(len(c05OriginDomains)-1)] // a name that also occurs as a sender domain
			}
			t.Rcpts = append(t.Rcpts, fmt.Sprintf("u%d%c@%s", i, 'a'+j, randCase(w, d)))
		}
		t.End = []string{"data", "data", "data", "rset", "ehlo"}[w.Choose(5)]
		k.Txns = append(k.Txns, t)
	}
	return k
}

func runC05(c *Ctx, cs Case) {
	k := cs.(*c05Case)
	// configuration through the real environment path
	for _, e := range os.Environ() {
		if strings.HasPrefix(e, "INBUCKET_") {
			os.Unsetenv(e[:strings.Index(e, "=")])
		}
	}
	var keys []string
	for e := range k.Env {
		keys = append(keys, e)
	}
	sort.Strings(keys)
	for _, e := range keys {
		os.Setenv(e, k.Env[e])
	}
	root, err := config.Process()
	if err != nil {
		c.Failf("config-process-error", "config.Process() rejected the environment: %v", err)
		return
	}
	if k.Store.Backend == "file" {
		ensureFS(c.Sim)
	}
	simnet.Of(c.Sim).Profile = k.Net
	eh := extension.NewHost()
	st, err := openStore(k.Store, eh)
	if err != nil {
		panic(err)
	}
	switch k.Hook {
	case "allow":
		eh.Events.BeforeRcptToAccepted.AddListener("c05", func(event.SMTPSession) *event.SMTPResponse {
			return &event.SMTPResponse{Action: event.ActionAllow}
		})
	case "defer":
		eh.Events.BeforeRcptToAccepted.AddListener("c05", func(event.SMTPSession) *event.SMTPResponse {
			return &event.SMTPResponse{Action: event.ActionDefer}
		})
	}
	env := startSMTP(c, root, st, eh)
	pol := &k.Pol
	expect := map[string]int{} // "mailbox\x00token"
	data := map[string][]byte{}
	changed := false
	t := c.Go("client", func() {
		cl, err := dialSMTP(c, "client", 200*time.Second)
		if err != nil {
			c.Failf("dial-refused", "%v", err)
			return
		}
		defer cl.close()
		cl.readReply()
		cl.cmd("EHLO client.sim")
		for _, tx := range k.Txns {
			_, odom, _ := models.SplitAddress(tx.From)
			wantMail := pol.AcceptOrigin(odom)
			rm := cl.cmd("MAIL FROM:<" + tx.From + ">")
			if rm.Err != nil {
				c.Failf("no-reply", "MAIL: %v", rm.Err)
				return
			}
			if rm.ok2xx() != wantMail {
				if wantMail {
					c.Failf("origin-refused-against-policy", "MAIL FROM:<%s> answered %s; no reject-origin pattern of %v matches %q", tx.From, rm, pol.RejectOrigin, odom)
				} else {
					c.Failf("origin-accepted-against-policy", "MAIL FROM:<%s> answered %s although %q matches a reject-origin pattern of %v", tx.From, rm, odom, pol.RejectOrigin)
				}
				return
			}
			if !rm.ok2xx() {
				changed = true
				continue
			}
			var accepted []string
			for _, rc := range tx.Rcpts {
				_, dom, _ := models.SplitAddress(rc)
				// an extension's "allow" overrides the domain policy, never the recipient limit
				domainOK := pol.AcceptRecipient(dom) || k.Hook == "allow"
				want := domainOK && len(accepted) < pol.MaxRecipients
				rr := cl.cmd("RCPT TO:<" + rc + ">")
				if rr.Err != nil {
					c.Failf("no-reply", "RCPT: %v", rr.Err)
					return
				}
				if rr.ok2xx() {
					accepted = append(accepted, rc)
				}
				if len(accepted) > pol.MaxRecipients {
					c.Failf("recipient-limit-exceeded", "transaction holds %d accepted recipients, the configured maximum is %d", len(accepted), pol.MaxRecipients)
					return
				}
				if rr.ok2xx() != want {
					switch {
					case want:
						c.Failf("recipient-refused-against-policy", "RCPT TO:<%s> answered %s; policy (defaultAccept=%v accept=%v reject=%v, %d of max %d accepted) says accept",
							rc, rr, pol.DefaultAccept, pol.AcceptDomains, pol.RejectDomains, len(accepted), pol.MaxRecipients)
					case !domainOK:
						c.Failf("recipient-accepted-against-policy", "RCPT TO:<%s> answered %s; policy (defaultAccept=%v accept=%v reject=%v) says refuse",
							rc, rr, pol.DefaultAccept, pol.AcceptDomains, pol.RejectDomains)
					default:
						c.Failf("recipient-limit-exceeded", "RCPT TO:<%s> answered %s beyond the maximum of %d recipients", rc, rr, pol.MaxRecipients)
					}
					return
				}
				if !want {
					changed = true
				}
			}
			switch tx.End {
			case "data":
				if len(accepted) == 0 {
					cl.cmd("RSET")
					continue
				}
				if r := cl.cmd("DATA"); r.Code == 354 {
					d := mkMessage(tx.Token, "hdr@sender.test", tx.Rcpts, 20, 1)
					data[tx.Token] = d
					if fin := cl.sendData(d); fin.Code == 250 {
						for _, a := range accepted {
							_, dom, _ := models.SplitAddress(a)
							if pol.StoreRecipient(dom) {
								mb, _ := models.MailboxName("local", a)
								expect[mb+"\x00"+tx.Token]++
							} else {
								changed = true
							}
						}
					} else {
						c.Failf("data-refused", "DATA of a transaction with accepted recipients answered %s", fin)
						return
					}
				} else {
					c.Failf("data-refused", "DATA with %d accepted recipients answered %s", len(accepted), r)
					return
				}
			case "rset":
				cl.cmd("RSET")
			case "ehlo":
				cl.cmd("EHLO again.sim")
			}
		}
		cl.cmd("QUIT")
	})
	c.Main.Join(t)
	env.stop()
	if c.Failed() {
		return
	}
	var names []string
	for key := range expect {
		names = append(names, key[:strings.Index(key, "\x00")])
	}
	sort.Strings(names)
	dump, err := dumpStore(st, names)
	if err != nil {
		c.Failf("store-read-error", "%v", err)
		return
	}
	got := map[string]int{}
	var boxes []string
	for b := range dump {
		boxes = append(boxes, b)
	}
	sort.Strings(boxes)
	for _, b := range boxes {
		for _, m := range dump[b] {
			key := b + "\x00" + m.Token
			got[key]++
			if expect[key] == 0 {
				c.Failf("stored-against-policy", "mailbox %q holds %s although the store/discard rule (defaultStore=%v store=%v discard=%v) says discard, or it was never accepted there",
					b, m.Token, pol.DefaultStore, pol.StoreDomains, pol.DiscardDomains)
			}
		}
	}
	var ekeys []string
	for key := range expect {
		ekeys = append(ekeys, key)
	}
	sort.Strings(ekeys)
	for _, key := range ekeys {
		if got[key] != expect[key] {
			parts := strings.SplitN(key, "\x00", 2)
			c.Failf("discarded-against-policy", "mailbox %q holds %d copies of %s, the store rule (defaultStore=%v store=%v discard=%v) promises %d",
				parts[0], got[key], parts[1], pol.DefaultStore, pol.StoreDomains, pol.DiscardDomains, expect[key])
		}
	}
	if changed {
		c.Stat("probe.runs_where_policy_refused_or_discarded", 1)
	}
	c.NonTrivial(len(ekeys), changed, len(k.Txns), strings.Join(keys, ","), k.Env["INBUCKET_SMTP_REJECTDOMAINS"], k.Env["INBUCKET_SMTP_ACCEPTDOMAINS"], c.Sim.Steps)
}

func init() {
	register(&Prop{
		ID:    "C05",
		Level: "exploration",
		Gen:   genC05,
		Run:   runC05,
		Config: func(cs Case) simrt.Config {
			return simrt.Config{NoJumps: true, MaxSteps: 400000, MaxSimTime: 6 * time.Hour}
		},
		BudgetIsViolation: true,
		QuickRuns:         8000,
		ThoroughRuns:      200000,
		Rule: "per run the harness sets INBUCKET_SMTP_* in the process environment (default-accept/default-store switches, accept/reject/store/" +
			"discard lists with mixed-case entries, reject-origin patterns with * and ?, MaxRecipients 1-4; in two runs of five an extension listener that answers allow / defer to every RCPT), calls the real config.Process(), " +
			"starts the real SMTP server on the simulated network and plays 1-5 transactions whose sender and recipient domains hit and just " +
			"miss every list entry in lower, upper and mixed case. The documented rule (reference policy model with a recursive wildcard " +
			"matcher) predicts the reply class (2xx / refusal) of every MAIL and RCPT, the recipient count never exceeds the limit, and after " +
			"every 250-acknowledged DATA exactly the store-eligible recipients' mailboxes gain the message (all mailboxes are read back). " +
			"non-trivial = every run; distinct by configuration and dialogue shape",
		Real:        []string{"pkg/config (Process, envconfig)", "pkg/policy", "pkg/server/smtp", "pkg/message", "pkg/stringutil (wildcards)", "stores"},
		Stub:        []string{"TCP (simnet)", "scheduler", "clock", "disk"},
		Assumptions: []string{"local mailbox naming (naming is C04's subject)", "syntactically valid addresses only"},
	})
}
