package harness

import (
	"bytes"
	"context"
	"fmt"
	"io"
	"sort"
	"strings"
	"time"

	"github.com/anishathalye/porcupine"
	"github.com/inbucket/inbucket/v3/pkg/config"
	"github.com/inbucket/inbucket/v3/pkg/extension"
	"github.com/inbucket/inbucket/v3/pkg/storage"
	"github.com/inbucket/inbucket/v3/vsim/models"
	"github.com/inbucket/inbucket/v3/vsim/simrt"
)

// C09: stores are safe under concurrent use - every operation completes, no
// crash, no deadlock, results linearizable, no lost delivery, no duplicate id.

type c09Case struct {
	Cfg       StoreCfg
	Names     []string
	Prefill   []SOp
	Clients   [][]SOp
	Retention bool
	RetPeriod time.Duration
}

func (k *c09Case) Describe() []string {
	l := []string{"store " + k.Cfg.String(), "mailboxes " + strings.Join(k.Names, " | ")}
	for i, o := range k.Prefill {
		l = append(l, fmt.Sprintf("prefill %d %s", i, o))
	}
	for ci, ops := range k.Clients {
		for i, o := range ops {
			l = append(l, fmt.Sprintf("client%d op%d %s", ci, i, o))
		}
	}
	if k.Retention {
		l = append(l, fmt.Sprintf("retention scan task, period %v", k.RetPeriod))
	}
	return l
}

// hop is one recorded operation of the concurrent history.
type hop struct {
	Client  int
	Kind    string
	Mailbox string
	ID      string // input id (get/seen/remove)
	Token   string // add: token of the message
	Call    int64
	Ret     int64
	// outputs
	OutID    string
	Found    bool
	OutToken string
	OutSeen  bool
	IDs      []string
	Seens    []bool
	NotExist bool
	Err      string
}

func (h hop) String() string {
	s := fmt.Sprintf("[%d,%d] c%d %s %q", h.Call, h.Ret, h.Client, h.Kind, h.Mailbox)
	switch h.Kind {
	case "add":
		s += fmt.Sprintf(" token=%s -> id=%q", h.Token, h.OutID)
	case "get", "latest":
		s += fmt.Sprintf(" id=%q -> found=%v id=%q token=%s seen=%v", h.ID, h.Found, h.OutID, h.OutToken, h.OutSeen)
	case "list":
		s += fmt.Sprintf(" -> %v seen=%v", h.IDs, h.Seens)
	case "seen", "remove":
		s += fmt.Sprintf(" id=%q -> notexist=%v", h.ID, h.NotExist)
	}
	if h.Err != "" {
		s += " ERR=" + h.Err
	}
	return s
}

var c09Kinds = []string{"add", "add", "add", "get", "latest", "list", "list", "seen", "remove", "remove", "purge"}

func genC09(w *simrt.Choices, tier string, avoid map[string]bool) Case {
	k := &c09Case{}
	k.Cfg = StoreCfg{Backend: "mem"}
	if w.Choose(2) == 1 {
		k.Cfg.Backend = "file"
	}
	k.Cfg.Cap = []int{0, 0, 1, 2}[w.Choose(4)]
	if k.Cfg.Backend == "mem" && !avoid["maxkb"] {
		k.Cfg.MaxKB = []int{0, 0, 1, 2}[w.Choose(4)]
	}
	nb := 1 + w.Choose(3)
	if w.Choose(2) == 0 && len(collidingNames) > 0 {
		g := collidingNames[w.Choose(len(collidingNames))]
		k.Names = append([]string{}, g[:nb]...)
	} else {
		k.Names = pickNames(w, nb, false)
	}
	mkAdd := func(mb string, tok int, old bool) SOp {
		m := &models.Msg{Mailbox: mb, Token: fmt.Sprintf("tok%d", tok), From: people[1], Date: baseDate.Add(30 * time.Hour)}
		m.Subject = m.Token
		if old {
			m.Date = baseDate.Add(-48 * time.Hour)
		}
		sz := []int{40, 300, 700, 1100}[w.Choose(4)]
		m.Body = genBody(w, m.Token, sz)
		return SOp{Kind: "add", Mailbox: mb, Msg: m}
	}
	tok := 0
	for i, n := 0, w.Choose(4); i < n; i++ {
		tok++
		k.Prefill = append(k.Prefill, mkAdd(k.Names[w.Choose(nb)], tok, w.Choose(2) == 1))
	}
	nc := 2 + w.Choose(3)
	budget := 14 - len(k.Prefill)
	for c := 0; c < nc; c++ {
		var ops []SOp
		for i, n := 0, 1+w.Choose(5); i < n && budget > 0; i++ {
			budget--
			kind := c09Kinds[w.Choose(len(c09Kinds))]
			mb := k.Names[w.Choose(nb)]
			op := SOp{Kind: kind, Mailbox: mb}
			switch kind {
			case "add":
				tok++
				op = mkAdd(mb, tok, w.Choose(3) == 0)
			case "get", "seen", "remove":
				op.Ref = w.Choose(6)
				if w.Choose(8) == 0 {
					op.Ref = -1
					op.BadID = badIDs[w.Choose(len(badIDs))]
				}
			}
			ops = append(ops, op)
		}
		k.Clients = append(k.Clients, ops)
	}
	if w.Choose(3) == 0 {
		k.Retention = true
		k.RetPeriod = 24 * time.Hour
	}
	return k
}

type c09Run struct {
	c      *Ctx
	k      *c09Case
	store  storage.Store
	seq    int64
	hist   []hop
	issued map[string][]string // ids issued so far per mailbox (any client)
	bodies map[string][]byte   // token -> body
}

func (r *c09Run) stamp() int64 { r.seq++; return r.seq }

func (r *c09Run) pickID(o SOp) string {
	if o.Ref < 0 {
		return o.BadID
	}
	l := r.issued[o.Mailbox]
	if len(l) == 0 {
		return "1"
	}
	return l[o.Ref%len(l)]
}

func (r *c09Run) record(h hop) {
	r.hist = append(r.hist, h)
	r.c.Logf("%s", h)
}

func (r *c09Run) checkContent(m storage.Message, where string) {
	want, ok := r.bodies[m.Subject()]
	if !ok {
		r.c.Failf(r.tag()+"/unknown-message", "%s: message %q/%q has subject %q that no delivery used", where, m.Mailbox(), m.ID(), m.Subject())
		return
	}
	rd, err := m.Source()
	if err != nil {
		return // removed concurrently: explainable
	}
	b, err := io.ReadAll(rd)
	_ = rd.Close()
	if err != nil {
		return
	}
	if !bytes.Equal(b, want) {
		r.c.Failf(r.tag()+"/content-corrupt", "%s: message %q/%q content is %d bytes %q, delivered %d bytes %q", where, m.Mailbox(), m.ID(), len(b), short(b), len(want), short(want))
	}
	if m.Size() != int64(len(want)) {
		r.c.Failf(r.tag()+"/size-wrong", "%s: message %q/%q Size()=%d, delivered %d bytes", where, m.Mailbox(), m.ID(), m.Size(), len(want))
	}
}

func (r *c09Run) tag() string {
	t := r.k.Cfg.Backend
	if r.k.Cfg.Cap > 0 {
		t += "+cap"
	}
	if r.k.Cfg.MaxKB > 0 {
		t += "+maxkb"
	}
	return t
}

func (r *c09Run) unexpected(h *hop, err error) {
	h.Err = err.Error()
	r.c.Failf(r.tag()+"/"+h.Kind+"->unexpected-error", "client %d %s %q: %v", h.Client, h.Kind, h.Mailbox, err)
}

// do executes one client operation and records it.
func (r *c09Run) do(client int, o SOp) {
	h := hop{Client: client, Kind: o.Kind, Mailbox: o.Mailbox}
	switch o.Kind {
	case "add":
		m := *o.Msg
		h.Token = m.Token
		h.Call = r.stamp()
		id, err := r.store.AddMessage(delivery(&m))
		h.Ret = r.stamp()
		if err != nil {
			r.unexpected(&h, err)
		}
		h.OutID = id
		r.issued[o.Mailbox] = append(r.issued[o.Mailbox], id)
	case "get", "latest":
		h.ID = "latest"
		if o.Kind == "get" {
			h.ID = r.pickID(o)
		}
		h.Call = r.stamp()
		m, err := r.store.GetMessage(o.Mailbox, h.ID)
		h.Ret = r.stamp()
		switch {
		case isNotExist(err):
			h.NotExist = true
		case err != nil:
			r.unexpected(&h, err)
		case m == nil:
			r.c.Failf(r.tag()+"/GetMessage->(nil,nil)", "client %d get %q %q returned neither a message nor an error", client, o.Mailbox, h.ID)
		default:
			h.Found, h.OutID, h.OutToken, h.OutSeen = true, m.ID(), m.Subject(), m.Seen()
			r.checkContent(m, "get")
		}
	case "list":
		h.Call = r.stamp()
		ms, err := r.store.GetMessages(o.Mailbox)
		h.Ret = r.stamp()
		if err != nil {
			r.unexpected(&h, err)
		}
		for _, m := range ms {
			h.IDs = append(h.IDs, m.ID()+"="+m.Subject())
			h.Seens = append(h.Seens, m.Seen())
			r.checkContent(m, "list")
		}
	case "seen":
		h.ID = r.pickID(o)
		h.Call = r.stamp()
		err := r.store.MarkSeen(o.Mailbox, h.ID)
		h.Ret = r.stamp()
		if isNotExist(err) {
			h.NotExist = true
		} else if err != nil {
			r.unexpected(&h, err)
		}
	case "remove":
		h.ID = r.pickID(o)
		h.Call = r.stamp()
		err := r.store.RemoveMessage(o.Mailbox, h.ID)
		h.Ret = r.stamp()
		if isNotExist(err) {
			h.NotExist = true
		} else if err != nil {
			r.unexpected(&h, err)
		}
	case "purge":
		h.Call = r.stamp()
		err := r.store.PurgeMessages(o.Mailbox)
		h.Ret = r.stamp()
		if err != nil {
			r.unexpected(&h, err)
		}
	}
	r.record(h)
}

// retStore is the Store the retention scanner sees: it records the scanner's
// reads and removals as one more client of the history.
type retStore struct {
	storage.Store
	r      *c09Run
	client int
}

func (s *retStore) RemoveMessage(mailbox, id string) error {
	h := hop{Client: s.client, Kind: "remove", Mailbox: mailbox, ID: id, Call: s.r.stamp()}
	err := s.Store.RemoveMessage(mailbox, id)
	h.Ret = s.r.stamp()
	if isNotExist(err) {
		h.NotExist = true
	} else if err != nil {
		s.r.unexpected(&h, err)
	}
	s.r.record(h)
	return err
}

func (s *retStore) VisitMailboxes(f func([]storage.Message) bool) error {
	call := s.r.stamp()
	err := s.Store.VisitMailboxes(func(ms []storage.Message) bool {
		if len(ms) > 0 {
			h := hop{Client: s.client, Kind: "list", Mailbox: ms[0].Mailbox(), Call: call, Ret: s.r.stamp()}
			for _, m := range ms {
				h.IDs = append(h.IDs, m.ID()+"="+m.Subject())
				h.Seens = append(h.Seens, m.Seen())
			}
			s.r.record(h)
		}
		cont := f(ms)
		call = s.r.stamp()
		return cont
	})
	if err != nil {
		s.r.c.Failf(s.r.tag()+"/VisitMailboxes->unexpected-error", "retention scan: VisitMailboxes: %v", err)
	}
	return err
}

func runC09(c *Ctx, cs Case) {
	k := cs.(*c09Case)
	r := &c09Run{c: c, k: k, issued: map[string][]string{}, bodies: map[string][]byte{}}
	if k.Cfg.Backend == "file" {
		ensureFS(c.Sim)
	}
	st, err := openStore(k.Cfg, extension.NewHost())
	if err != nil {
		panic(err)
	}
	r.store = st
	for _, o := range k.Prefill {
		r.bodies[o.Msg.Token] = o.Msg.Body
	}
	for _, ops := range k.Clients {
		for _, o := range ops {
			if o.Kind == "add" {
				r.bodies[o.Msg.Token] = o.Msg.Body
			}
		}
	}
	for _, o := range k.Prefill {
		r.do(99, o)
	}
	for ci, ops := range k.Clients {
		ci, ops := ci, ops
		c.Go(fmt.Sprintf("client%d", ci), func() {
			for _, o := range ops {
				r.do(ci, o)
			}
		})
	}
	if k.Retention {
		c.Go("retention", func() {
			rs := storage.NewRetentionScanner(config.Storage{RetentionPeriod: k.RetPeriod, RetentionSleep: 0}, &retStore{Store: st, r: r, client: 50})
			_ = rs.DoScan(context.Background())
		})
	}
	c.JoinAll()
	// final reads close the history: every delivery must be accounted for
	for _, n := range k.Names {
		r.do(98, SOp{Kind: "list", Mailbox: n})
	}
	c.Sim.SetVal("c09", r)
	if k.Cfg.MaxKB > 0 {
		r.quiescenceInvariants()
	}
}

// quiescenceInvariants replace linearizability when size evictions can fire.
func (r *c09Run) quiescenceInvariants() {
	c := r.c
	var total int64
	delivered := map[string]map[string]bool{}
	for _, h := range r.hist {
		if h.Kind == "add" && h.OutID != "" {
			if delivered[h.Mailbox] == nil {
				delivered[h.Mailbox] = map[string]bool{}
			}
			if delivered[h.Mailbox][h.OutID] {
				c.Failf(r.tag()+"/duplicate-id", "two deliveries to %q received id %q", h.Mailbox, h.OutID)
			}
			delivered[h.Mailbox][h.OutID] = true
		}
	}
	for _, n := range r.k.Names {
		ms, err := r.store.GetMessages(n)
		if err != nil {
			c.Failf(r.tag()+"/list->unexpected-error", "final listing of %q: %v", n, err)
			continue
		}
		seen := map[string]bool{}
		for _, m := range ms {
			total += m.Size()
			if seen[m.ID()] {
				c.Failf(r.tag()+"/duplicate-id", "mailbox %q lists id %q twice", n, m.ID())
			}
			seen[m.ID()] = true
			if !delivered[n][m.ID()] {
				c.Failf(r.tag()+"/phantom-message", "mailbox %q lists id %q that no delivery returned", n, m.ID())
			}
		}
	}
	if lim := int64(r.k.Cfg.MaxKB) * 1024; total > lim {
		c.Failf(r.tag()+"/size-limit-exceeded", "%d bytes stored at quiescence, limit %d", total, lim)
	}
	if c.Failed() {
		return
	}
	// the accounting has not drifted: after everything is purged the whole capacity is usable
	for _, n := range r.k.Names {
		if err := r.store.PurgeMessages(n); err != nil {
			c.Failf(r.tag()+"/purge->unexpected-error", "purging %q at quiescence: %v", n, err)
			return
		}
	}
	sz := 256
	k := r.k.Cfg.MaxKB * 1024 / (sz + 64)
	if r.k.Cfg.Cap > 0 && k > r.k.Cfg.Cap {
		k = r.k.Cfg.Cap
	}
	for j := 0; j < k; j++ {
		m := &models.Msg{Mailbox: "driftprobe", Subject: fmt.Sprintf("probe %d", j), Date: baseDate, From: people[0], Body: bytes.Repeat([]byte("p"), sz)}
		if _, err := r.store.AddMessage(delivery(m)); err != nil {
			c.Failf(r.tag()+"/add->unexpected-error", "drift probe: %v", err)
			return
		}
	}
	got, _ := r.store.GetMessages("driftprobe")
	if len(got) != k {
		c.Failf(r.tag()+"/capacity-drift", "after the concurrent history and a purge of every mailbox, %d fresh %d-byte messages fit the size limit (%d KiB) but only %d are retrievable", k, sz, r.k.Cfg.MaxKB, len(got))
	}
	c.Stat("probe.drift_probes", 1)
}

// ---- linearizability (outside the bubble) ----

type mstate struct {
	ids  []string // live, oldest first: "id=token"
	seen []bool
	ever string // "|id|id|" ids ever issued
	capN int
}

func (s mstate) key() string {
	var b strings.Builder
	for i, id := range s.ids {
		b.WriteString(id)
		if s.seen[i] {
			b.WriteString("*")
		}
		b.WriteString(",")
	}
	b.WriteString("#")
	b.WriteString(s.ever)
	return b.String()
}

func (s mstate) clone() mstate {
	return mstate{ids: append([]string{}, s.ids...), seen: append([]bool{}, s.seen...), ever: s.ever, capN: s.capN}
}

func (s mstate) find(id string) int {
	for i, x := range s.ids {
		if strings.HasPrefix(x, id+"=") {
			return i
		}
	}
	return -1
}

func c09Model(capN int) porcupine.Model {
	return porcupine.Model{
		Partition: func(history []porcupine.Operation) [][]porcupine.Operation {
			m := map[string][]porcupine.Operation{}
			var keys []string
			for _, op := range history {
				mb := op.Input.(hop).Mailbox
				if _, ok := m[mb]; !ok {
					keys = append(keys, mb)
				}
				m[mb] = append(m[mb], op)
			}
			sort.Strings(keys)
			var out [][]porcupine.Operation
			for _, k := range keys {
				out = append(out, m[k])
			}
			return out
		},
		Init: func() interface{} { return mstate{capN: capN} },
		Step: func(state, input, output interface{}) (bool, interface{}) {
			s := state.(mstate)
			h := input.(hop)
			switch h.Kind {
			case "add":
				if h.OutID == "" {
					return h.Err != "", s
				}
				if strings.Contains(s.ever, "|"+h.OutID+"|") {
					return false, s // id handed out twice
				}
				n := s.clone()
				n.ids = append(n.ids, h.OutID+"="+h.Token)
				n.seen = append(n.seen, false)
				if n.ever == "" {
					n.ever = "|"
				}
				n.ever += h.OutID + "|"
				for n.capN > 0 && len(n.ids) > n.capN {
					n.ids, n.seen = n.ids[1:], n.seen[1:]
				}
				return true, n
			case "get":
				i := s.find(h.ID)
				if i < 0 {
					return !h.Found, s
				}
				return h.Found && s.ids[i] == h.OutID+"="+h.OutToken && s.seen[i] == h.OutSeen, s
			case "latest":
				if len(s.ids) == 0 {
					return !h.Found, s
				}
				i := len(s.ids) - 1
				return h.Found && s.ids[i] == h.OutID+"="+h.OutToken && s.seen[i] == h.OutSeen, s
			case "list":
				if len(h.IDs) != len(s.ids) {
					return false, s
				}
				for i := range h.IDs {
					if h.IDs[i] != s.ids[i] || h.Seens[i] != s.seen[i] {
						return false, s
					}
				}
				return true, s
			case "seen":
				i := s.find(h.ID)
				if i < 0 {
					return h.NotExist, s
				}
				if h.NotExist {
					return false, s
				}
				n := s.clone()
				n.seen[i] = true
				return true, n
			case "remove":
				i := s.find(h.ID)
				if i < 0 {
					return h.NotExist, s
				}
				if h.NotExist {
					return false, s
				}
				n := s.clone()
				n.ids = append(n.ids[:i], n.ids[i+1:]...)
				n.seen = append(n.seen[:i], n.seen[i+1:]...)
				return true, n
			case "purge":
				n := s.clone()
				n.ids, n.seen = nil, nil
				return true, n
			}
			return false, s
		},
		Equal: func(a, b interface{}) bool { return a.(mstate).key() == b.(mstate).key() },
	}
}

func postC09(c *Ctx, cs Case) {
	k := cs.(*c09Case)
	r, _ := c.Sim.Val("c09").(*c09Run)
	if r == nil || c.Failed() {
		return
	}
	c.Stat("probe.history_ops", int64(len(r.hist)))
	if k.Cfg.MaxKB > 0 {
		c.Stat("probe.runs_checked_by_quiescence_invariants", 1)
		c.NonTrivial("q", len(r.hist), c.schedHash)
		return
	}
	var ops []porcupine.Operation
	overlap := false
	for _, h := range r.hist {
		if h.Err != "" {
			continue
		}
		ops = append(ops, porcupine.Operation{ClientId: h.Client % 40, Input: h, Call: h.Call, Output: h, Return: h.Ret})
	}
	for i := range r.hist {
		for j := range r.hist {
			if i != j && r.hist[i].Call < r.hist[j].Call && r.hist[j].Call < r.hist[i].Ret {
				overlap = true
			}
		}
	}
	res := porcupine.CheckOperationsTimeout(c09Model(k.Cfg.Cap), ops, 20*time.Second)
	switch res {
	case porcupine.Illegal:
		var l []string
		for _, h := range r.hist {
			l = append(l, h.String())
		}
		c.Failf(r.tag()+"/not-linearizable", "no sequential order of these operations, consistent with real time, explains the results:\n%s", strings.Join(l, "\n"))
	case porcupine.Unknown:
		c.Stat("probe.linearizability_timeouts", 1)
		c.inconclusive = true
	default:
		c.Stat("probe.histories_linearizable", 1)
		if overlap {
			c.Stat("probe.histories_with_overlapping_ops", 1)
			c.NonTrivial("l", len(r.hist), c.schedHash)
		}
	}
}

func init() {
	register(&Prop{
		ID:                "C09",
		Level:             "exploration",
		Gen:               genC09,
		Run:               runC09,
		Post:              postC09,
		Config:            func(cs Case) simrt.Config { return simrt.Config{NoJumps: true, MaxSteps: 100000} },
		BudgetIsViolation: true,
		RaceCompanion:     "C09R,C09SR",
		Companions:        []string{"C09S"},
		QuickRuns:         50000,
		ThoroughRuns:      400000,
		Rule: "2-4 concurrent client tasks (plus, in a third of the runs, a real retention scan) issue <=14 operations in total on 1-3 mailboxes " +
			"(half of the runs: names sharing a lock bucket / hash directory) of the real memory store (cap, maxkb) or file store (cap) under " +
			"the seeded scheduler: every lock, channel operation of the size enforcer and file-system step is a scheduling point. Each " +
			"operation is recorded with invoke/return sequence numbers and the history is checked with porcupine against the sequential " +
			"mailbox model (per mailbox; add must return a never-issued id; cap eviction is part of add). Runs with a size limit are checked " +
			"by quiescence invariants instead. Crash and deadlock verdicts of the scheduler are violations. non-trivial = history with " +
			"overlapping operations, distinct by (history length, schedule hash)",
		Real: []string{"pkg/storage/mem", "pkg/storage/file", "pkg/storage HashLock, RetentionScanner.DoScan"},
		Stub: []string{"scheduler (simrt)", "sync (simsync)", "disk (simfs)"},
		Assumptions: []string{
			"pre-emption granularity is the instrumented operation (lock, channel, FS step); unsynchronised plain memory accesses are covered by race mode only",
			"a Source() error on a message that a concurrent operation removed is explainable and not flagged",
			"porcupine timeouts (Unknown) are counted as inconclusive, never reported",
		},
	})
}
