package harness

import (
	"bufio"
	"bytes"
	"context"
	"encoding/json"
	"errors"
	"fmt"
	"net"
	"net/http"
	"net/url"
	"strings"
	"time"

	"github.com/gorilla/websocket"
	"github.com/inbucket/inbucket/v3/pkg/extension"
	"github.com/inbucket/inbucket/v3/pkg/extension/event"
	"github.com/inbucket/inbucket/v3/pkg/message"
	"github.com/inbucket/inbucket/v3/pkg/msghub"
	"github.com/inbucket/inbucket/v3/pkg/policy"
	"github.com/inbucket/inbucket/v3/pkg/rest"
	"github.com/inbucket/inbucket/v3/pkg/rest/model"
	"github.com/inbucket/inbucket/v3/pkg/server/web"
	"github.com/inbucket/inbucket/v3/vsim/simnet"
	"github.com/inbucket/inbucket/v3/vsim/simrt"
)

// C15: every monitor sees every message event once, in order; none can stall
// the rest.

type c15Listener struct {
	Kind   string // "h" harness listener | "ws" WebSocket client
	Ver    int    // ws: 1 | 2
	Filter string // "" = all mailboxes
	Beh    string // good | fail | stall | fin | rst
	At     int    // fail/stall/disconnect after this many events received
	Wait   bool   // ws: driver waits for quiescence right after the handshake
}

func (l c15Listener) String() string {
	return fmt.Sprintf("%s v%d filter=%q %s@%d wait=%v", l.Kind, l.Ver, l.Filter, l.Beh, l.At, l.Wait)
}

type c15Op struct {
	Kind string // dispatch delete burst join sync idle
	Box  string
	N    int
	Ref  int
	L    c15Listener
}

func (o c15Op) String() string {
	switch o.Kind {
	case "dispatch":
		return "dispatch " + o.Box
	case "burst":
		return fmt.Sprintf("burst %d x dispatch %s", o.N, o.Box)
	case "delete":
		return fmt.Sprintf("delete #%d", o.Ref)
	case "join":
		return "join " + o.L.String()
	case "idle":
		return fmt.Sprintf("idle %ds", o.N)
	}
	return o.Kind
}

type c15Case struct {
	History int
	Net     simnet.Profile
	Ops     []c15Op
	// ViaHost: stored/deleted events reach the hub the way they do in the server - emitted on the
	// extension host, on which the hub registered itself - instead of through Dispatch/Delete
	// (only when every listener is well-behaved, so that the driver can tell what the hub has seen)
	ViaHost bool
}

func (k *c15Case) Describe() []string {
	l := []string{fmt.Sprintf("history=%d %s events-through-extension-host=%v", k.History, profileString(k.Net), k.ViaHost)}
	for i, o := range k.Ops {
		l = append(l, fmt.Sprintf("%3d %s", i, o))
	}
	return l
}

var c15Boxes = []string{"alice", "bob", "carol"}

func genC15(w *simrt.Choices, tier string, avoid map[string]bool) Case {
	k := &c15Case{History: []int{1, 2, 3, 5, 30}[w.Choose(5)], Net: netProfile(w)}
	k.Net.MaxDelay = []time.Duration{0, 3 * time.Millisecond}[w.Choose(2)]
	if k.Net.BufCap == 64 {
		k.Net.BufCap = 1024
	}
	n := 6 + w.Choose(25)
	bursts := 0
	for i := 0; i < n; i++ {
		var o c15Op
		switch w.Choose(12) {
		case 0, 1, 2, 3, 4:
			o = c15Op{Kind: "dispatch", Box: c15Boxes[w.Choose(3)]}
		case 5, 6:
			o = c15Op{Kind: "delete", Ref: w.Choose(40)}
		case 7:
			if bursts < 2 && !avoid["burst"] {
				bursts++
				o = c15Op{Kind: "burst", Box: c15Boxes[w.Choose(3)], N: []int{40, 120, 230}[w.Choose(3)]}
			} else {
				o = c15Op{Kind: "dispatch", Box: c15Boxes[w.Choose(3)]}
			}
		case 8, 9, 10:
			l := c15Listener{Kind: "ws", Ver: 1 + w.Choose(2), Wait: w.Choose(2) == 0}
			if w.Choose(3) == 0 {
				l.Kind = "h"
			}
			if w.Choose(3) == 0 {
				l.Filter = c15Boxes[w.Choose(3)]
			}
			l.Beh = []string{"good", "good", "good", "fail", "stall", "fin", "rst"}[w.Choose(7)]
			if l.Kind == "h" {
				l.Filter = "" // harness listeners see every mailbox; filtering is done by the WebSocket listeners
				if l.Beh != "good" {
					l.Beh = "fail"
				}
			}
			if l.Kind == "ws" && l.Beh == "fail" {
				l.Beh = "fin"
			}
			if avoid["faulty-ws"] && l.Kind == "ws" {
				l.Beh = "good"
			}
			l.At = w.Choose(12)
			o = c15Op{Kind: "join", L: l}
		default:
			o = c15Op{Kind: []string{"sync", "idle"}[w.Choose(2)], N: []int{1, 15, 70}[w.Choose(3)]}
		}
		k.Ops = append(k.Ops, o)
	}
	k.ViaHost = w.Choose(2) == 0
	for _, o := range k.Ops {
		if o.Kind == "join" && o.L.Beh != "good" {
			k.ViaHost = false
		}
	}
	return k
}

// c15Sentinel is a hub listener of the driver that counts what the hub has processed.
type c15Sentinel struct{ n int }

func (l *c15Sentinel) Receive(m event.MessageMetadata) error { l.n++; return nil }
func (l *c15Sentinel) Delete(mailbox, id string) error       { l.n++; return nil }

// hub-order event as the driver issued it
type c15Ev struct {
	Kind    string // stored | deleted
	Box, ID string
}

func (e c15Ev) String() string { return e.Kind + ":" + e.Box + "/" + e.ID }

type c15Attached struct {
	spec    c15Listener
	name    string
	lo, hi  int // hub position bracket of the registration
	recv    []c15Ev
	failed  bool // harness listener already returned its error
	joined  bool // ws: handshake completed
	joinErr error
}

// Receive / Delete make a harness listener a msghub.Listener.
type c15HL struct{ a *c15Attached }

func (l c15HL) Receive(m event.MessageMetadata) error {
	a := l.a
	if a.spec.Beh == "fail" && len(a.recv) >= a.spec.At {
		a.failed = true
		return errors.New("listener failure injected by the harness")
	}
	a.recv = append(a.recv, c15Ev{"stored", m.Mailbox, m.ID})
	return nil
}

func (l c15HL) Delete(mailbox, id string) error {
	a := l.a
	if a.spec.Beh == "fail" && len(a.recv) >= a.spec.At {
		a.failed = true
		return errors.New("listener failure injected by the harness")
	}
	a.recv = append(a.recv, c15Ev{"deleted", mailbox, id})
	return nil
}

// hijackWriter is the ResponseWriter of the upgrade shim.
type hijackWriter struct {
	conn     net.Conn
	brw      *bufio.ReadWriter
	hdr      http.Header
	status   int
	body     bytes.Buffer
	hijacked bool
}

func (w *hijackWriter) Header() http.Header { return w.hdr }
func (w *hijackWriter) Write(b []byte) (int, error) {
	if w.status == 0 {
		w.status = 200
	}
	return w.body.Write(b)
}
func (w *hijackWriter) WriteHeader(code int) {
	if w.status == 0 {
		w.status = code
	}
}
func (w *hijackWriter) Hijack() (net.Conn, *bufio.ReadWriter, error) {
	w.hijacked = true
	return w.conn, w.brw, nil
}

// serveUpgrade is what net/http does for one connection, reduced to what a
// WebSocket upgrade needs: read the request, run the real router, recover.
func serveUpgrade(c *Ctx, conn net.Conn) {
	defer func() {
		if r := recover(); r != nil {
			// net/http recovers handler panics and drops the connection
			c.Stat("probe.monitor_handler_panic_recovered_like_net_http", 1)
			_ = conn.Close()
		}
	}()
	br := bufio.NewReader(conn)
	req, err := http.ReadRequest(br)
	if err != nil {
		_ = conn.Close()
		return
	}
	req.RemoteAddr = conn.RemoteAddr().String()
	w := &hijackWriter{conn: conn, brw: bufio.NewReadWriter(br, bufio.NewWriter(conn)), hdr: http.Header{}}
	web.Router.ServeHTTP(w, req)
	if !w.hijacked {
		fmt.Fprintf(conn, "HTTP/1.1 %d %s\r\nContent-Length: %d\r\nConnection: close\r\n\r\n", w.status, http.StatusText(w.status), w.body.Len())
		_, _ = conn.Write(w.body.Bytes())
		_ = conn.Close()
	}
}

func runC15(c *Ctx, cs Case) {
	k := cs.(*c15Case)
	nt := simnet.Of(c.Sim)
	nt.Profile = k.Net
	eh := extension.NewHost()
	hub := msghub.New(k.History, eh)
	ctx, cancel := context.WithCancel(context.Background())
	defer cancel()
	simrt.Go("hub.Start", func() { hub.Start(ctx) })
	root := baseRoot()
	st, err := openStore(StoreCfg{Backend: "mem"}, eh)
	if err != nil {
		panic(err)
	}
	mgr := &message.StoreManager{AddrPolicy: &policy.Addressing{Config: root}, Store: st, ExtHost: eh}
	web.Router = web.NewRouter()
	rest.SetupRoutes(web.Router.PathPrefix("/api/").Subrouter())
	web.NewServer(root, mgr, hub)

	var events []c15Ev
	var dispatched []c15Ev
	sentinel := &c15Sentinel{}
	if k.ViaHost {
		hub.AddListener(sentinel)
		c.Main.Quiesce()
	}
	// flush (events through the extension host): wait until the hub has processed everything
	// emitted so far, so that the driver knows where in the hub's order a join or sync falls
	flush := func(why string) bool {
		if !k.ViaHost {
			return true
		}
		for i := 0; i < 20000 && sentinel.n < len(events); i++ {
			c.Main.Quiesce()
			if sentinel.n < len(events) {
				simrt.Sleep(5 * time.Millisecond)
			}
		}
		if sentinel.n != len(events) {
			c.Failf("events-emitted-on-the-extension-host-do-not-reach-the-hub", "%s: %d stored/deleted events were emitted on the extension host, the hub has processed %d after 100 simulated seconds", why, len(events), sentinel.n)
			return false
		}
		return true
	}
	var listeners []*c15Attached
	nextID := 0
	port := 50000

	dispatch := func(box string) {
		nextID++
		id := fmt.Sprintf("m%d", nextID)
		if k.ViaHost {
			eh.Events.AfterMessageStored.Emit(&event.MessageMetadata{Mailbox: box, ID: id, Subject: "s" + id, Date: time.Now(), Size: 10})
		} else {
			hub.Dispatch(event.MessageMetadata{Mailbox: box, ID: id, Subject: "s" + id, Date: time.Now(), Size: 10})
		}
		ev := c15Ev{"stored", box, id}
		events = append(events, ev)
		dispatched = append(dispatched, ev)
	}
	syncHub := func(why string) bool {
		t := simrt.Go("hub.Sync", func() { hub.Sync() })
		if !c.Main.JoinTimeout(t, 10*time.Minute) {
			c.Failf("hub-blocked", "hub.Sync() (%s) did not return within 10 simulated minutes: the hub is blocked (%d events issued, %d listeners attached)", why, len(events), len(listeners))
			return false
		}
		return true
	}
	joinWS := func(a *c15Attached) {
		port++
		cli, srv := nt.Pipe(fmt.Sprintf("192.0.2.9:%d", port), "127.0.0.1:9000")
		simrt.Go("ws-server-"+a.name, func() { serveUpgrade(c, srv) })
		simrt.Go("ws-client-"+a.name, func() {
			path := fmt.Sprintf("/api/v%d/monitor/messages", a.spec.Ver)
			if a.spec.Filter != "" {
				path += "/" + a.spec.Filter
			}
			u, _ := url.Parse("ws://inbucket.sim" + path)
			wc, _, err := websocket.NewClient(cli, u, nil, 1024, 1024)
			if err != nil {
				a.joinErr = err
				return
			}
			a.joined = true
			for {
				if a.spec.Beh != "good" && len(a.recv) >= a.spec.At {
					switch a.spec.Beh {
					case "stall":
						c.Stat("fault.ws_client_stops_reading", 1)
						simrt.Current().Block("ws client stalled on purpose")
					case "fin":
						c.Stat("fault.ws_client_fin", 1)
						_ = cli.Close()
					case "rst":
						c.Stat("fault.ws_client_rst", 1)
						cli.Abort()
					}
					return
				}
				_ = wc.SetReadDeadline(time.Now().Add(6 * time.Hour))
				_, data, err := wc.ReadMessage()
				if err != nil {
					return
				}
				if a.spec.Ver == 1 {
					var h model.JSONMessageHeaderV1
					if json.Unmarshal(data, &h) != nil {
						c.Failf("ws-bad-json", "%s: undecodable v1 event %q", a.name, data)
						return
					}
					a.recv = append(a.recv, c15Ev{"stored", h.Mailbox, h.ID})
				} else {
					var e model.JSONMonitorEventV2
					if json.Unmarshal(data, &e) != nil {
						c.Failf("ws-bad-json", "%s: undecodable v2 event %q", a.name, data)
						return
					}
					switch {
					case e.Variant == "message-stored" && e.Header != nil:
						a.recv = append(a.recv, c15Ev{"stored", e.Header.Mailbox, e.Header.ID})
					case e.Variant == "message-deleted" && e.Identifier != nil:
						a.recv = append(a.recv, c15Ev{"deleted", e.Identifier.Mailbox, e.Identifier.ID})
					default:
						c.Failf("ws-bad-json", "%s: unknown v2 event %q", a.name, data)
						return
					}
				}
			}
		})
	}

	// closeBrackets waits until every WebSocket handshake in flight has
	// completed (or failed) and its handler has registered with the hub, then
	// fixes the upper end of the attach-position brackets.
	closeBrackets := func() {
		for _, a := range listeners {
			if a.hi >= 0 {
				continue
			}
			for i := 0; i < 2000 && !a.joined && a.joinErr == nil; i++ {
				c.Main.Quiesce()
				if a.joined || a.joinErr != nil {
					break
				}
				simrt.Sleep(5 * time.Millisecond)
			}
			c.Main.Quiesce()
			a.hi = len(events)
		}
	}
	for i, o := range k.Ops {
		switch o.Kind {
		case "dispatch":
			dispatch(o.Box)
		case "burst":
			for j := 0; j < o.N; j++ {
				dispatch(o.Box)
			}
			c.Stat("probe.bursts", 1)
		case "delete":
			ev := c15Ev{"deleted", "nobody", "m0"}
			if len(dispatched) > 0 {
				d := dispatched[o.Ref%len(dispatched)]
				ev = c15Ev{"deleted", d.Box, d.ID}
			}
			if k.ViaHost {
				eh.Events.AfterMessageDeleted.Emit(&event.MessageMetadata{Mailbox: ev.Box, ID: ev.ID})
			} else {
				hub.Delete(ev.Box, ev.ID)
			}
			events = append(events, ev)
		case "join":
			if !flush("before a join") {
				return
			}
			a := &c15Attached{spec: o.L, name: fmt.Sprintf("L%d", len(listeners)), lo: len(events)}
			listeners = append(listeners, a)
			if o.L.Kind == "h" {
				hub.AddListener(c15HL{a})
				a.hi = a.lo
			} else {
				joinWS(a)
				a.hi = -1 // open until the driver next observes quiescence
				if o.L.Wait {
					closeBrackets()
				}
			}
		case "sync":
			if !flush("before a sync") {
				return
			}
			if !syncHub(fmt.Sprintf("op %d", i)) {
				return
			}
			closeBrackets()
		case "idle":
			simrt.Sleep(time.Duration(o.N) * time.Second)
		}
		if c.Failed() {
			return
		}
	}
	// drain: the hub must still make progress, then everything in flight arrives
	if k.ViaHost {
		if !flush("at the end") {
			return
		}
		c.Stat("probe.runs_with_events_through_the_extension_host", 1)
	}
	if !syncHub("final") {
		return
	}
	closeBrackets()
	simrt.Sleep(30 * time.Second)
	c.Main.Quiesce()
	if !syncHub("after drain") {
		return
	}
	if c.Failed() {
		return
	}

	// ---- oracle ----
	good := 0
	for _, a := range listeners {
		if a.spec.Kind == "ws" && !a.joined {
			if a.joinErr != nil {
				c.Failf("ws-handshake-failed", "%s (%s): %v", a.name, a.spec, a.joinErr)
			}
			continue
		}
		complete := a.spec.Beh == "good"
		ok := false
		var why string
		for p := a.lo; p <= a.hi && !ok; p++ {
			exp := c15Expected(k.History, events, p, a.spec)
			if d := c15Match(a.recv, exp, complete); d == "" {
				ok = true
			} else if why == "" || p == a.lo {
				why = fmt.Sprintf("for attach position %d: %s", p, d)
			}
		}
		if !ok {
			cls := "listener-sequence-wrong"
			if complete {
				cls = "well-behaved-" + cls
			} else {
				cls = "faulty-" + cls
			}
			c.Failf(cls+"("+a.spec.Kind+")", "%s (%s, attached in [%d,%d] of %d hub events) received %d events %s - %s",
				a.name, a.spec, a.lo, a.hi, len(events), len(a.recv), c15Short(a.recv), why)
			return
		}
		if complete {
			good++
		}
	}
	c.Stat("probe.listeners_checked", int64(len(listeners)))
	if good > 0 && len(events) > 0 {
		c.NonTrivial(len(events), len(listeners), good, k.History, c.Sim.Steps)
	}
}

// c15Expected: retained history at p (most recent N stored, not since deleted,
// oldest first) followed by the events after p, through the listener's filter.
func c15Expected(n int, events []c15Ev, p int, spec c15Listener) []c15Ev {
	var stored []c15Ev
	for _, e := range events[:p] {
		if e.Kind == "stored" {
			stored = append(stored, e)
		}
	}
	if len(stored) > n {
		stored = stored[len(stored)-n:]
	}
	deleted := map[string]bool{}
	seenStored := map[string]bool{}
	for _, e := range events[:p] {
		key := e.Box + "/" + e.ID
		if e.Kind == "stored" {
			seenStored[key] = true
		} else if seenStored[key] {
			deleted[key] = true
		}
	}
	var out []c15Ev
	for _, e := range stored {
		if deleted[e.Box+"/"+e.ID] {
			continue
		}
		if spec.Filter == "" || spec.Filter == e.Box {
			out = append(out, e)
		}
	}
	for _, e := range events[p:] {
		if spec.Filter != "" && spec.Filter != e.Box {
			continue
		}
		if e.Kind == "deleted" && spec.Kind == "ws" && spec.Ver == 1 {
			continue // the v1 protocol has no delete events
		}
		out = append(out, e)
	}
	return out
}

// c15Match compares received with expected (prefix allowed for listeners that
// were made to fail/stall/disconnect).
func c15Match(recv, exp []c15Ev, complete bool) string {
	for i, e := range recv {
		if i >= len(exp) {
			return fmt.Sprintf("event %d (%s) is surplus: only %d expected", i, e, len(exp))
		}
		if e != exp[i] {
			return fmt.Sprintf("event %d is %s, expected %s", i, e, exp[i])
		}
	}
	if complete && len(recv) < len(exp) {
		return fmt.Sprintf("missed %d events starting with #%d %s", len(exp)-len(recv), len(recv), exp[len(recv)])
	}
	return ""
}

func c15Short(l []c15Ev) string {
	var s []string
	for i, e := range l {
		if i >= 6 && i < len(l)-3 {
			if i == 6 {
				s = append(s, "...")
			}
			continue
		}
		s = append(s, e.String())
	}
	return "[" + strings.Join(s, " ") + "]"
}

func init() {
	register(&Prop{
		ID:    "C15",
		Level: "exploration",
		Gen:   genC15,
		Run:   runC15,
		Config: func(cs Case) simrt.Config {
			return simrt.Config{NoJumps: true, MaxSteps: 3000000, MaxSimTime: 12 * time.Hour}
		},
		BudgetIsViolation: true,
		QuickRuns:         5000,
		ThoroughRuns:      120000,
		Rule: "the real message hub (Start as a task) driven by a script of 6-30 operations: dispatch, delete (of dispatched or unknown ids), " +
			"bursts of 40-230 dispatches, listener joins, Sync, idle periods of 1-70 simulated seconds; history length in {1,2,3,5,30}. " +
			"Listeners: harness listeners (well-behaved, or failing at their k-th event) and REAL v1/v2 WebSocket monitors - gorilla's client " +
			"on one end of a simulated connection, on the other end a shim that reads the upgrade request and calls the real Monitor* handler " +
			"through the real router with a hijackable writer - optionally filtered by mailbox, reading everything, or after k events: " +
			"ceasing to read, closing (FIN) or resetting (RST) the connection, also with events still queued. Oracle per listener: received " +
			"sequence = retained history at its attach position (some position inside the observed bracket for WebSocket listeners) followed by " +
			"exactly the later events through its filter, each once, in hub order (a prefix for listeners made to fail); hub.Sync must return " +
			"within 10 simulated minutes at any time. non-trivial = at least one well-behaved listener checked against a non-empty history",
		Real: []string{"pkg/msghub", "pkg/rest socketv1/socketv2 controllers", "gorilla/websocket (server and client)", "gorilla/mux router", "pkg/server/web handler wrapper"},
		Stub: []string{"TCP (simnet)", "net/http server loop (30-line upgrade shim with the same panic recovery)", "scheduler", "clock"},
		Assumptions: []string{
			"history length 0 is documented as 'disables the monitor' and is not exercised",
			"one driver task issues the hub operations (hub order = issue order); concurrency is between the hub, the WebSocket writer/reader goroutines and the clients",
		},
	})
}
