package harness

import (
	"fmt"
	"regexp"
)

// File-store ids are "<timestamp>-<counter>" where the counter is process
// global (it depends on how many ids earlier runs of the same worker process
// consumed).  Event logs name them F1, F2, ... in order of first appearance
// within the run, so that a run's log is a function of (seed, code) only.
var fileIDRe = regexp.MustCompile(`[0-9]{8}T[0-9]{6}-[0-9]{4}`)

// The POP3 greeting carries the process id and the wall-clock second.
var pop3BannerRe = regexp.MustCompile(`<[0-9]+\.[0-9]+@`)

func newIDNormaliser() func(string) string {
	names := map[string]string{}
	return func(line string) string {
		if pop3BannerRe.MatchString(line) {
			line = pop3BannerRe.ReplaceAllString(line, "<pid.time@")
		}
		if !fileIDRe.MatchString(line) {
			return line
		}
		return fileIDRe.ReplaceAllStringFunc(line, func(id string) string {
			n, ok := names[id]
			if !ok {
				n = fmt.Sprintf("F%d", len(names)+1)
				names[id] = n
			}
			return n
		})
	}
}
