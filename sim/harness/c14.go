package harness

import (
	"bytes"
	"fmt"
	"sort"
	"strings"
	"time"

	"github.com/inbucket/inbucket/v3/pkg/extension"
	"github.com/inbucket/inbucket/v3/pkg/message"
	"github.com/inbucket/inbucket/v3/pkg/policy"
	"github.com/inbucket/inbucket/v3/pkg/rest/client"
	"github.com/inbucket/inbucket/v3/pkg/storage"
	"github.com/inbucket/inbucket/v3/vsim/models"
	"github.com/inbucket/inbucket/v3/vsim/simrt"
)

// C14: REST / web UI / bundled Go client report and change exactly the store's state.

type c14Box struct {
	Addr string // an address whose mail is stored in this mailbox
	Name string // the mailbox name (reference naming model)
}

type c14Op struct {
	Kind  string // deliver list get source html seen delete purge
	Iface string // rest webui client hdr (client MessageHeader methods) msg (client Message methods)
	Box   int    // index into Boxes; -1 = a mailbox that never receives mail
	Key   string // how the mailbox is named in the request: exact upper mixed tag addr
	IDK   string // live latest missing removed
	Ref   int
	BadID string
	Shape string // plain html
	Extra int
	Patch string // true false junk (REST mark-seen body)
	Enc   int    // percent-encoding style of raw requests
}

func (o c14Op) String() string {
	switch o.Kind {
	case "deliver":
		return fmt.Sprintf("deliver box%d shape=%s extra=%d", o.Box, o.Shape, o.Extra)
	case "list", "purge":
		return fmt.Sprintf("%s via %s box%d key=%s enc=%d", o.Kind, o.Iface, o.Box, o.Key, o.Enc)
	case "seen":
		return fmt.Sprintf("seen via %s box%d key=%s id=%s#%d/%q body=%s enc=%d", o.Iface, o.Box, o.Key, o.IDK, o.Ref, o.BadID, o.Patch, o.Enc)
	}
	return fmt.Sprintf("%s via %s box%d key=%s id=%s#%d/%q enc=%d", o.Kind, o.Iface, o.Box, o.Key, o.IDK, o.Ref, o.BadID, o.Enc)
}

type c14Case struct {
	Store    StoreCfg
	Naming   string
	Base     string
	URLSlash bool // the base URL handed to the Go client ends in "/"
	// features that known defects make fatal are switched on per run, so that
	// most runs get past them even without an avoid switch
	Slash      bool // a mailbox name contains "/"
	ClientSeen bool // mark-seen may go through the Go client
	DomainCase bool // case variants of a key also permute the domain
	Boxes      []c14Box
	Ops        []c14Op
}

func (k *c14Case) Describe() []string {
	l := []string{fmt.Sprintf("store=%s naming=%s basepath=%q clientURLslash=%v slash=%v clientMarkSeen=%v domainCaseVariants=%v", k.Store, k.Naming, k.Base, k.URLSlash, k.Slash, k.ClientSeen, k.DomainCase)}
	for i, b := range k.Boxes {
		l = append(l, fmt.Sprintf("box%d addr=%q name=%q", i, b.Addr, b.Name))
	}
	for i, o := range k.Ops {
		l = append(l, fmt.Sprintf("%3d %s", i, o))
	}
	return l
}

// local parts a mailbox name may consist of (all accepted unquoted by RFC
// 5321): plain ones, and ones made of URL-significant characters.
var c14PlainLocals = []string{"a", "alice", "bob", "carol.d", "dave-e_f"}
var c14OddLocals = []string{
	"per%cent", "per%41", "q?x=1", "ha#sh", "am&p", "st*r", "it's", "c^r{t}|~", "do$l!", "back`tick",
}
var c14SlashLocals = []string{"a/b", "a/1", "a/latest", "a/b/source", "x//y"}
var c14Domains = []string{"example.com", "mail.example.org", "[192.168.0.1]"}

// ids that were never issued; some need percent-encoding.
var c14BadIDs = []string{"0", "999999", "20000101T000000-9999", "latestx", "-1", "01", "no such", "a?b", "100%", "x#y"}

const c14SafeBadIDs = 6 // the first six consist of unreserved characters only

func genC14(w *simrt.Choices, tier string, avoid map[string]bool) Case {
	k := &c14Case{}
	k.Store = StoreCfg{Backend: []string{"mem", "file"}[w.Choose(2)]}
	k.Naming = []string{"local", "full", "domain"}[w.Choose(3)]
	k.Base = basePaths[w.Choose(len(basePaths))]
	k.URLSlash = w.Choose(2) == 1
	k.Slash = w.Choose(8) == 7 && !avoid["slash-in-name"]
	k.ClientSeen = w.Choose(6) == 5 && !avoid["client-markseen"]
	k.DomainCase = w.Choose(6) == 5 && !avoid["domain-case"]
	nb := 1 + w.Choose(3)
	seen := map[string]bool{}
	for len(k.Boxes) < nb {
		var local string
		switch p := w.Choose(3); {
		case p == 1:
			local = c14OddLocals[w.Choose(len(c14OddLocals))]
		case k.Slash && (len(k.Boxes) == 0 || p == 2):
			local = c14SlashLocals[w.Choose(len(c14SlashLocals))]
		default:
			local = c14PlainLocals[w.Choose(len(c14PlainLocals))]
		}
		addr := local + "@" + c14Domains[w.Choose(len(c14Domains))]
		name, ok := models.MailboxName(k.Naming, addr)
		if !ok || seen[name] {
			// same rule when generating and replaying: a fixed fallback, never a retry
			addr = fmt.Sprintf("box%d@d%d.example.net", len(k.Boxes), len(k.Boxes))
			name, _ = models.MailboxName(k.Naming, addr)
		}
		seen[name] = true
		k.Boxes = append(k.Boxes, c14Box{Addr: addr, Name: name})
		if strings.HasPrefix(local, "a/") && len(k.Boxes) < nb {
			// the mailbox whose name is the part before the slash
			_, dom := splitAt(addr)
			if n2, ok := models.MailboxName(k.Naming, "a@"+dom); ok && !seen[n2] {
				seen[n2] = true
				k.Boxes = append(k.Boxes, c14Box{Addr: "a@" + dom, Name: n2})
			}
		}
	}
	kinds := []string{"deliver", "deliver", "deliver", "deliver", "list", "list", "get", "get", "get", "source", "source", "source",
		"html", "seen", "seen", "seen", "delete", "delete", "delete", "purge"}
	ifaces := map[string][]string{
		"list": {"rest", "client"}, "get": {"rest", "webui", "client", "hdr"}, "source": {"rest", "webui", "client", "hdr", "msg"},
		"html": {"webui"}, "seen": {"rest", "client"}, "delete": {"rest", "client", "hdr", "msg"}, "purge": {"rest", "client"},
	}
	n := 6 + w.Choose(30)
	for i := 0; i < n; i++ {
		o := c14Op{Kind: kinds[w.Choose(len(kinds))]}
		if i < 3 {
			o.Kind = "deliver"
		}
		o.Box = w.Choose(len(k.Boxes))
		if o.Kind == "deliver" {
			o.Shape = []string{"plain", "html"}[w.Choose(2)]
			o.Extra = []int{0, 40, 700, 5000}[w.Choose(4)]
			k.Ops = append(k.Ops, o)
			continue
		}
		if w.Choose(10) == 0 {
			o.Box = -1
		}
		fl := ifaces[o.Kind]
		o.Iface = fl[w.Choose(len(fl))]
		if o.Kind == "seen" && o.Iface == "client" && !k.ClientSeen {
			o.Iface = "rest"
		}
		o.Key = []string{"exact", "exact", "exact", "addr", "upper", "mixed", "tag"}[w.Choose(7)]
		o.Enc = w.Choose(2)
		if o.Kind != "list" && o.Kind != "purge" {
			o.IDK = []string{"live", "live", "live", "live", "latest", "missing", "missing", "removed"}[w.Choose(8)]
			if o.Iface == "hdr" || (o.Iface == "msg" && o.IDK != "latest") {
				o.IDK = "live"
			}
			o.Ref = w.Choose(8)
			o.BadID = c14BadIDs[w.Choose(len(c14BadIDs))]
			if o.Iface != "rest" && o.Iface != "webui" {
				// the client puts ids into the URL as they are; ids are not claimed to
				// survive that unless they are URL-safe (all ids the stores issue are)
				o.BadID = c14BadIDs[w.Choose(c14SafeBadIDs)]
			}
		}
		if o.Kind == "seen" && o.Iface == "rest" {
			o.Patch = []string{"true", "true", "true", "true", "false", "junk"}[w.Choose(6)]
		}
		k.Ops = append(k.Ops, o)
	}
	return k
}

// c14Body builds a well-formed RFC 5322 message carrying token.
func c14Body(shape, tok string, extra int) []byte {
	var b bytes.Buffer
	fmt.Fprintf(&b, "From: Sender %s <sender@example.org>\r\nTo: <rcpt@example.com>\r\nSubject: %s\r\nMessage-Id: <%s@sim>\r\nMIME-Version: 1.0\r\n", tok, tok, tok)
	filler := func() {
		x := uint64(len(tok))*2654435761 + uint64(extra)
		for i := 0; i < extra; i++ {
			x = x*6364136223846793005 + 1442695040888963407
			if i%70 == 69 {
				b.WriteString("\r\n")
				continue
			}
			b.WriteByte("abcdefghij klmnop.,"[(x>>33)%19])
		}
		b.WriteString("\r\n")
	}
	if shape == "html" {
		b.WriteString("Content-Type: multipart/alternative; boundary=\"simbound\"\r\n\r\n")
		fmt.Fprintf(&b, "--simbound\r\nContent-Type: text/plain; charset=us-ascii\r\n\r\ntext body of %s\r\n", tok)
		filler()
		fmt.Fprintf(&b, "--simbound\r\nContent-Type: text/html; charset=us-ascii\r\n\r\n<html><body><p>html body of %s</p></body></html>\r\n--simbound--\r\n", tok)
		return b.Bytes()
	}
	fmt.Fprintf(&b, "Content-Type: text/plain; charset=us-ascii\r\n\r\ntext body of %s\r\n", tok)
	filler()
	return b.Bytes()
}

// apiRig drives the HTTP interfaces and the client side by side with the model.
type apiRig struct {
	c       *Ctx
	k       *c14Case
	web     *webEnv
	cl      *client.Client
	store   storage.Store
	model   *models.MailStore
	removed map[string][]string // ids that existed once, per mailbox
	usable  []bool
	absent  string
	tok     int
	// current op (for classification)
	op     c14Op
	key    string
	name   string
	apiOps int
	onLive int
}

func absentName(mode string) string {
	switch mode {
	case "full":
		return "nobody@absent.example.net"
	case "domain":
		return "absent.example.net"
	}
	return "nobody"
}

// caseMix toggles the case of every other letter.
func caseMix(s string) string {
	b := []byte(s)
	n := 0
	for i, ch := range b {
		if ('a' <= ch && ch <= 'z') || ('A' <= ch && ch <= 'Z') {
			if n%2 == 0 {
				b[i] = ch ^ 0x20
			}
			n++
		}
	}
	return string(b)
}

// splitAt splits a plain (unquoted, route-free) address at its last "@".
func splitAt(addr string) (local, domain string) {
	i := strings.LastIndex(addr, "@")
	if i < 0 {
		return addr, ""
	}
	return addr[:i], addr[i+1:]
}

// keyFor renders the request key of an op and returns the mailbox it must reach.
func (r *apiRig) keyFor(o c14Op) (name, key string) {
	mode := r.k.Naming
	if o.Box < 0 {
		return r.absent, r.absent
	}
	b := r.k.Boxes[o.Box]
	fold := func(s string, f func(string) string) string {
		if !r.k.DomainCase && strings.Contains(s, "@") {
			l, d := splitAt(s)
			return f(l) + "@" + d
		}
		if !r.k.DomainCase && mode == "domain" {
			return s
		}
		return f(s)
	}
	switch o.Key {
	case "upper":
		key = fold(b.Name, strings.ToUpper)
	case "mixed":
		key = fold(b.Addr, caseMix)
	case "addr":
		key = b.Addr
	case "tag":
		l, d := splitAt(b.Addr)
		key = l + "+xtag@" + d
	default:
		key = b.Name
	}
	got, ok := models.LookupName(mode, key)
	if !ok || got != b.Name {
		panic(fmt.Sprintf("harness: key %q (%s) of box %q names %q in the model", key, o.Key, b.Name, got))
	}
	return b.Name, key
}

func (r *apiRig) resolveID(name string, o c14Op) (id string, want *models.Msg) {
	switch o.IDK {
	case "live":
		if l := r.model.List(name); len(l) > 0 {
			m := l[o.Ref%len(l)]
			return m.ID, m
		}
	case "latest":
		return "latest", r.model.Latest(name)
	case "removed":
		if l := r.removed[name]; len(l) > 0 {
			id = l[o.Ref%len(l)]
			return id, r.model.Get(name, id)
		}
	}
	return o.BadID, r.model.Get(name, o.BadID)
}

// idKind names the id situation for classes.
func idKind(o c14Op, want *models.Msg) string {
	switch {
	case o.IDK == "latest" && want == nil:
		return "(latest,empty)"
	case o.IDK == "latest":
		return "(latest)"
	case want == nil:
		return "(missing)"
	}
	return ""
}

// reaches reports whether a plain REST listing by key shows the messages the
// store holds in mailbox name (same ids, same order): the key reaches the mailbox.
func (r *apiRig) reaches(key, name string) bool {
	held, err := r.store.GetMessages(name)
	if err != nil {
		return false
	}
	resp := r.web.request("GET", r.web.apiPath(encSeg(key, 0)), nil)
	if resp.Panic != "" || resp.Code != 200 {
		return false
	}
	l, err := decodeList(resp.Body)
	if err != nil || len(l) != len(held) {
		return false
	}
	for i := range l {
		if l[i].ID != held[i].ID() {
			return false
		}
	}
	return true
}

// fail records a violation.  opc names interface and operation, outcome the
// observation ("->500", "->panic", "-mismatch", "-no-effect", ...).  When the
// key of the failing request contains "/" or is a case / +tag variant of the
// name, and a plain listing by that key does not show the mailbox either, the
// failure is attributed to that feature of the key (one defect, one class).
func (r *apiRig) fail(opc, outcome, format string, a ...interface{}) {
	if r.c.Failed() {
		return
	}
	msg := fmt.Sprintf(format, a...)
	msg = fmt.Sprintf("op %s; key %q; %s [%s %s base=%q]", r.op, r.key, msg, r.k.Store.Backend, r.k.Naming, r.k.Base)
	feature := ""
	switch {
	case strings.Contains(r.key, "/"):
		feature = "name-with-slash"
	case r.op.Key == "upper" || r.op.Key == "mixed":
		feature = "case-variant(" + r.k.Naming + ")"
	case r.op.Key == "tag":
		feature = "tag-variant(" + r.k.Naming + ")"
	}
	serverFault := outcome == "->panic" || r.web.last.Panic != "" || strings.HasPrefix(outcome, "->5") || (outcome == "->error" && r.web.last.Code >= 500)
	if feature != "" && !serverFault && !r.reaches(r.key, r.name) {
		// the request did not reach the mailbox, or a mutation request had
		// its effect somewhere else / nowhere
		short := "-not-reached"
		if outcome == "-no-effect" || outcome == "-wrong-effect" {
			short = "-wrong-effect"
		}
		r.c.Failf(feature+short, "%s", msg)
		return
	}
	r.c.Failf(opc+outcome, "%s", msg)
}

// okStatus checks the status of a raw request against the allowed codes; a
// panic or a 5xx is always a violation (the request is well-formed and names
// a mailbox that can receive mail).
func (r *apiRig) okStatus(opc string, resp httpResp, allowed ...int) bool {
	if resp.Panic != "" {
		r.fail(opc, "->panic", "%s: handler panicked: %s at %s", resp.Line, resp.Panic, resp.Where)
		return false
	}
	for _, a := range allowed {
		if resp.Code == a {
			return true
		}
	}
	r.fail(opc, "->"+fmt.Sprint(resp.Code), "%s answered %s, expected one of %v", resp.Line, resp, allowed)
	return false
}

func parseAddrString(s string) (name, addr string) {
	s = strings.TrimSpace(s)
	i := strings.LastIndex(s, "<")
	if i < 0 || !strings.HasSuffix(s, ">") {
		return "", s
	}
	name = strings.TrimSpace(s[:i])
	if len(name) >= 2 && name[0] == '"' && name[len(name)-1] == '"' {
		name = name[1 : len(name)-1]
	}
	return name, s[i+1 : len(s)-1]
}

func cmpAddr(got string, want models.Addr) string {
	n, a := parseAddrString(got)
	if a != want.Address || n != want.Name {
		return fmt.Sprintf("%q, the store has name %q address %q", got, want.Name, want.Address)
	}
	return ""
}

// cmpAPI compares the metadata an interface reported with the model's message.
func cmpAPI(got *apiMsg, want *models.Msg, box string) string {
	switch {
	case got == nil:
		return "no message"
	case got.mailbox() != box:
		return fmt.Sprintf("mailbox %q, want %q", got.mailbox(), box)
	case got.ID != want.ID:
		return fmt.Sprintf("id %q, want %q", got.ID, want.ID)
	case got.Subject != want.Subject:
		return fmt.Sprintf("subject %q, want %q", got.Subject, want.Subject)
	case got.Size != want.Size():
		return fmt.Sprintf("size %d, want %d", got.Size, want.Size())
	case got.Seen != want.Seen:
		return fmt.Sprintf("seen %v, want %v", got.Seen, want.Seen)
	case !got.Date.Equal(want.Date):
		return fmt.Sprintf("date %v, want %v", got.Date, want.Date)
	case got.PosixMillis != want.Date.UnixNano()/1000000:
		return fmt.Sprintf("posix-millis %d, want %d", got.PosixMillis, want.Date.UnixNano()/1000000)
	case len(got.To) != len(want.To):
		return fmt.Sprintf("to has %d entries, want %d", len(got.To), len(want.To))
	}
	if d := cmpAddr(got.From, want.From); d != "" {
		return "from " + d
	}
	for i := range got.To {
		if d := cmpAddr(got.To[i], want.To[i]); d != "" {
			return fmt.Sprintf("to[%d] %s", i, d)
		}
	}
	return ""
}

func cmpAPIList(got []*apiMsg, want []*models.Msg, box string) string {
	if len(got) != len(want) {
		ids := make([]string, len(got))
		for i, m := range got {
			ids[i] = m.ID
		}
		return fmt.Sprintf("listing has %d messages %v, the store has %d %v", len(got), ids, len(want), idsOfM(want))
	}
	for i := range got {
		if d := cmpAPI(got[i], want[i], box); d != "" {
			return fmt.Sprintf("listing[%d]: %s", i, d)
		}
	}
	return ""
}

func fromHeader(h *client.MessageHeader) *apiMsg {
	if h == nil || h.JSONMessageHeaderV1 == nil {
		return nil
	}
	mb := h.Mailbox
	return &apiMsg{Mailbox: &mb, ID: h.ID, From: h.From, To: h.To, Subject: h.Subject, Date: h.Date, PosixMillis: h.PosixMillis, Size: h.Size, Seen: h.Seen}
}

func fromMessage(m *client.Message) *apiMsg {
	if m == nil || m.JSONMessageV1 == nil {
		return nil
	}
	mb := m.Mailbox
	out := &apiMsg{Mailbox: &mb, ID: m.ID, From: m.From, To: m.To, Subject: m.Subject, Date: m.Date, PosixMillis: m.PosixMillis, Size: m.Size, Seen: m.Seen, Header: m.Header}
	if m.Body != nil {
		out.Body = &apiBody{Text: m.Body.Text, HTML: m.Body.HTML}
	}
	return out
}

// cmpContent checks the decoded content an interface reported (REST: body.text /
// body.html, UI: text / html) for the message's token.
func cmpContent(got *apiMsg, want *models.Msg, ui bool) string {
	text, html := got.Text, got.HTML
	if !ui {
		if got.Body == nil {
			return "no body object"
		}
		text, html = got.Body.Text, got.Body.HTML
	}
	if !strings.Contains(text, "text body of "+want.Token) {
		return fmt.Sprintf("text %q does not contain the text body of %s", clipStr(text, 80), want.Token)
	}
	if bytes.Contains(want.Body, []byte("html body of")) && !strings.Contains(html, "html body of "+want.Token) {
		return fmt.Sprintf("html %q does not contain the HTML body of %s", clipStr(html, 80), want.Token)
	}
	found := false
	for _, hk := range sortedKeysL(got.Header) {
		if strings.EqualFold(hk, "Subject") && len(got.Header[hk]) > 0 && strings.Contains(got.Header[hk][0], want.Token) {
			found = true
		}
	}
	if !found {
		return "header map has no Subject with the token"
	}
	return ""
}

func sortedKeysL(m map[string][]string) []string {
	l := make([]string, 0, len(m))
	for k := range m {
		l = append(l, k)
	}
	sort.Strings(l)
	return l
}

// diffStore compares the whole store with model m.
func (r *apiRig) diffStore(m *models.MailStore) string {
	known := map[string]bool{r.absent: true}
	names := []string{r.absent}
	for _, b := range r.k.Boxes {
		if !known[b.Name] {
			known[b.Name] = true
			names = append(names, b.Name)
		}
	}
	for _, n := range names {
		got, err := r.store.GetMessages(n)
		if err != nil {
			return fmt.Sprintf("store.GetMessages(%q): %v", n, err)
		}
		if d := cmpList(got, m.List(n), true); d != "" {
			return fmt.Sprintf("mailbox %q: %s", n, d)
		}
	}
	extra := ""
	err := r.store.VisitMailboxes(func(ms []storage.Message) bool {
		if len(ms) > 0 && !known[ms[0].Mailbox()] {
			extra = fmt.Sprintf("store holds a mailbox %q nobody delivered to", ms[0].Mailbox())
			return false
		}
		return true
	})
	if err != nil {
		return "store.VisitMailboxes: " + err.Error()
	}
	return extra
}

// checkEffect compares the store with the model after a mutation request.
func (r *apiRig) checkEffect(opc string, before *models.MailStore, what string) {
	d := r.diffStore(r.model)
	if d == "" {
		return
	}
	if r.diffStore(before) == "" {
		r.fail(opc, "-no-effect", "%s, but the store is unchanged: %s", what, d)
		return
	}
	r.fail(opc, "-wrong-effect", "%s, but the store differs from the expected state: %s", what, d)
}

func (r *apiRig) enc(s string) string { return encSeg(s, r.op.Enc) }

func (r *apiRig) apply(i int, o c14Op) {
	c := r.c
	if o.Box >= 0 && !r.usable[o.Box] {
		return
	}
	name, key := r.keyFor(o)
	r.op, r.key, r.name = o, key, name
	if o.Kind == "deliver" {
		r.tok++
		tok := fmt.Sprintf("tok%d", r.tok)
		b := r.k.Boxes[o.Box]
		m := &models.Msg{Mailbox: name, Token: tok, From: models.Addr{Name: "Sender " + tok, Address: "sender@example.org"},
			To: []models.Addr{{Address: b.Addr}}, Subject: tok + []string{"", " <b>&amp;</b>", " ünï ✓", ` "q" \ /`}[o.Extra%4],
			Date: baseDate.Add(time.Duration(i) * time.Minute).Add(time.Duration(o.Extra) * time.Millisecond), Body: c14Body(o.Shape, tok, o.Extra)}
		if o.Extra == 700 {
			m.To = append(m.To, models.Addr{Name: "Second Person", Address: "second@example.org"})
		}
		id, err := r.store.AddMessage(delivery(m))
		if err != nil || id == "" {
			c.Failf("store.AddMessage-failed", "op %d %s: id %q err %v", i, o, id, err)
			return
		}
		m.ID = id
		r.model.Add(m)
		c.Logf("deliver %s -> %q/%s", tok, name, id)
		return
	}
	r.apiOps++
	if strings.Contains(key, "/") {
		c.Stat("probe.key_with_slash", 1)
	}
	if o.Key != "exact" {
		c.Stat("probe.key_variant_"+o.Key, 1)
	}
	if len(r.model.List(name)) > 0 {
		r.onLive++
	}
	switch o.Kind {
	case "list":
		r.doList(name, key, o)
	case "purge":
		r.doPurge(name, key, o)
	default:
		id, want := r.resolveID(name, o)
		if want == nil {
			c.Stat("probe.request_for_missing_message", 1)
		}
		if o.IDK == "latest" {
			c.Stat("probe.id_latest", 1)
		}
		switch o.Kind {
		case "get":
			r.doGet(name, key, id, want, o)
		case "source":
			r.doSource(name, key, id, want, o)
		case "html":
			r.doHTML(name, key, id, want, o)
		case "seen":
			r.doSeen(name, key, id, want, o)
		case "delete":
			r.doDelete(name, key, id, want, o)
		}
	}
}

// clientErr classifies an unexpected error of a client method.
// A panic or 5xx is reported under the method alone (it does not depend on
// which message was asked for), anything else under method and id situation.
func (r *apiRig) clientErr(base, ik string, err error) {
	switch {
	case r.web.last.Panic != "":
		r.fail(base, "->panic", "%v (server: %s at %s)", err, r.web.last.Panic, r.web.last.Where)
	case r.web.last.Code >= 500:
		r.fail(base, "->"+fmt.Sprint(r.web.last.Code), "returned %v (server reply to %s: %s)", err, r.web.last.Line, r.web.last)
	default:
		r.fail(base+ik, "->error", "returned %v (last server reply to %s: %s)", err, r.web.last.Line, r.web.last)
	}
}

// clientMissing checks the result of a client call about a message that does not exist.
func (r *apiRig) clientMissing(base, ik string, err error) {
	opc := base + ik
	switch {
	case r.web.last.Panic != "":
		r.fail(base, "->panic", "%v (server: %s at %s)", err, r.web.last.Panic, r.web.last.Where)
	case r.web.last.Code >= 500:
		r.fail(base, "->"+fmt.Sprint(r.web.last.Code), "returned %v (server reply to %s: %s)", err, r.web.last.Line, r.web.last)
	case err == nil:
		r.fail(opc, "->ok", "reported success for a message that does not exist (server reply to %s: %s)", r.web.last.Line, r.web.last)
	case r.web.last.Code != 404:
		r.fail(opc, "->"+fmt.Sprint(r.web.last.Code), "the server answered %s to %s, expected 404", r.web.last, r.web.last.Line)
	default:
		r.c.Stat("probe.missing_answered_404", 1)
	}
}

func (r *apiRig) doList(name, key string, o c14Op) {
	want := r.model.List(name)
	if o.Iface == "client" {
		r.c.Stat("probe.client_calls", 1)
		hs, err := r.cl.ListMailbox(key)
		if err != nil {
			if len(want) == 0 && r.web.last.Panic == "" && r.web.last.Code == 404 {
				return
			}
			r.clientErr("client.ListMailbox", "", err)
			return
		}
		got := make([]*apiMsg, len(hs))
		for i, h := range hs {
			if got[i] = fromHeader(h); got[i] == nil {
				r.fail("client.ListMailbox", "-mismatch", "entry %d is empty", i)
				return
			}
		}
		if d := cmpAPIList(got, want, name); d != "" {
			r.fail("client.ListMailbox", "-mismatch", "%s", d)
		}
		return
	}
	resp := r.web.request("GET", r.web.apiPath(r.enc(key)), nil)
	if len(want) == 0 && resp.Panic == "" && resp.Code == 404 {
		return
	}
	if !r.okStatus("rest/LIST", resp, 200) {
		return
	}
	got, err := decodeList(resp.Body)
	if err != nil {
		r.fail("rest/LIST", "-mismatch", "%s: reply %s is not a JSON list of messages: %v", resp.Line, resp, err)
		return
	}
	if d := cmpAPIList(got, want, name); d != "" {
		r.fail("rest/LIST", "-mismatch", "%s: %s", resp.Line, d)
	}
}

func (r *apiRig) doPurge(name, key string, o c14Op) {
	before := r.model.Clone()
	opc := "rest/PURGE"
	if o.Iface == "client" {
		opc = "client.PurgeMailbox"
		r.c.Stat("probe.client_calls", 1)
		if err := r.cl.PurgeMailbox(key); err != nil {
			r.clientErr(opc, "", err)
			return
		}
	} else {
		resp := r.web.request("DELETE", r.web.apiPath(r.enc(key)), nil)
		if !r.okStatus(opc, resp, 200) {
			return
		}
	}
	for _, m := range r.model.Purge(name) {
		r.removed[name] = append(r.removed[name], m.ID)
	}
	r.checkEffect(opc, before, "purge reported success")
}

// listHeader fetches the client's MessageHeader for want (hdr interface).
func (r *apiRig) listHeader(key string, want *models.Msg) *client.MessageHeader {
	hs, err := r.cl.ListMailbox(key)
	if err != nil {
		r.clientErr("client.ListMailbox", "", err)
		return nil
	}
	for _, h := range hs {
		if h != nil && h.JSONMessageHeaderV1 != nil && h.ID == want.ID {
			return h
		}
	}
	r.fail("client.ListMailbox", "-mismatch", "listing does not contain message %s", want.ID)
	return nil
}

func (r *apiRig) doGet(name, key, id string, want *models.Msg, o c14Op) {
	ik := idKind(o, want)
	switch o.Iface {
	case "client", "hdr":
		r.c.Stat("probe.client_calls", 1)
		base := "client.GetMessage"
		var m *client.Message
		var err error
		if o.Iface == "hdr" {
			if want == nil {
				return
			}
			h := r.listHeader(key, want)
			if h == nil {
				return
			}
			base, ik = "client.MessageHeader.GetMessage", ""
			m, err = h.GetMessage()
		} else {
			m, err = r.cl.GetMessage(key, id)
		}
		opc := base + ik
		if want == nil {
			r.clientMissing(base, ik, err)
			return
		}
		if err != nil {
			r.clientErr(base, ik, err)
			return
		}
		got := fromMessage(m)
		if got == nil {
			r.fail(opc, "-mismatch", "returned an empty message")
			return
		}
		if d := cmpAPI(got, want, name); d != "" {
			r.fail(opc, "-mismatch", "%s", d)
		} else if d := cmpContent(got, want, false); d != "" {
			r.fail(opc, "-mismatch", "%s", d)
		}
	default:
		opc, target, ui := "rest/GET"+ik, r.web.apiPath(r.enc(key), r.enc(id)), false
		if o.Iface == "webui" {
			opc, target, ui = "webui/message"+ik, r.web.uiPath(r.enc(key), r.enc(id)), true
		}
		resp := r.web.request("GET", target, nil)
		if want == nil {
			if r.okStatus(opc, resp, 404) {
				r.c.Stat("probe.missing_answered_404", 1)
			}
			return
		}
		if !r.okStatus(opc, resp, 200) {
			return
		}
		got, err := decodeMsg(resp.Body)
		if err != nil {
			r.fail(opc, "-mismatch", "%s: reply %s is not a JSON message: %v", resp.Line, resp, err)
			return
		}
		if d := cmpAPI(got, want, name); d != "" {
			r.fail(opc, "-mismatch", "%s: %s", resp.Line, d)
		} else if d := cmpContent(got, want, ui); d != "" {
			r.fail(opc, "-mismatch", "%s: %s", resp.Line, d)
		}
	}
}

func (r *apiRig) doSource(name, key, id string, want *models.Msg, o c14Op) {
	ik := idKind(o, want)
	cmp := func(opc string, got []byte) {
		if !bytes.Equal(got, want.Body) {
			r.fail(opc, "-mismatch", "source differs from the stored message %s: got %d bytes %q, the store has %d bytes %q", want.ID, len(got), short(got), len(want.Body), short(want.Body))
		}
	}
	switch o.Iface {
	case "client", "hdr", "msg":
		r.c.Stat("probe.client_calls", 1)
		base := "client.GetMessageSource"
		var buf *bytes.Buffer
		var err error
		switch o.Iface {
		case "hdr":
			if want == nil {
				return
			}
			h := r.listHeader(key, want)
			if h == nil {
				return
			}
			base, ik = "client.MessageHeader.GetSource", ""
			buf, err = h.GetSource()
		case "msg":
			if want == nil {
				return
			}
			m, gerr := r.cl.GetMessage(key, id)
			if gerr != nil || m == nil || m.JSONMessageV1 == nil {
				r.clientErr("client.GetMessage", ik, gerr)
				return
			}
			base, ik = "client.Message.GetSource", ""
			buf, err = m.GetSource()
		default:
			buf, err = r.cl.GetMessageSource(key, id)
		}
		if want == nil {
			r.clientMissing(base, ik, err)
			return
		}
		if err != nil || buf == nil {
			r.clientErr(base, ik, err)
			return
		}
		cmp(base+ik, buf.Bytes())
	default:
		opc, target := "rest/GET-source"+ik, r.web.apiPath(r.enc(key), r.enc(id), "source")
		if o.Iface == "webui" {
			opc, target = "webui/source"+ik, r.web.uiPath(r.enc(key), r.enc(id), "source")
		}
		resp := r.web.request("GET", target, nil)
		if want == nil {
			if r.okStatus(opc, resp, 404) {
				r.c.Stat("probe.missing_answered_404", 1)
			}
			return
		}
		if r.okStatus(opc, resp, 200) {
			cmp(opc, resp.Body)
		}
	}
}

func (r *apiRig) doHTML(name, key, id string, want *models.Msg, o c14Op) {
	opc := "webui/html" + idKind(o, want)
	resp := r.web.request("GET", r.web.uiPath(r.enc(key), r.enc(id), "html"), nil)
	if want == nil {
		if r.okStatus(opc, resp, 404) {
			r.c.Stat("probe.missing_answered_404", 1)
		}
		return
	}
	if !r.okStatus(opc, resp, 200) {
		return
	}
	if bytes.Contains(want.Body, []byte("html body of")) && !bytes.Contains(resp.Body, []byte("html body of "+want.Token)) {
		r.fail(opc, "-mismatch", "%s: reply %s does not contain the HTML part of %s", resp.Line, resp, want.Token)
	}
}

// mutated applies the expected effect of a successful mark-seen / delete to the model.
func (r *apiRig) mutated(kind, name string, want *models.Msg) {
	if kind == "seen" {
		r.model.MarkSeen(name, want.ID)
		return
	}
	r.model.Remove(name, want.ID)
	r.removed[name] = append(r.removed[name], want.ID)
}

func (r *apiRig) doSeen(name, key, id string, want *models.Msg, o c14Op) {
	before := r.model.Clone()
	ik := idKind(o, want)
	if o.Iface == "client" {
		r.c.Stat("probe.client_calls", 1)
		base, opc := "client.MarkSeen", "client.MarkSeen"+ik
		err := r.cl.MarkSeen(key, id)
		switch {
		case want == nil:
			r.clientMissing(base, ik, err)
		case err != nil && o.IDK == "latest" && r.web.last.Panic == "" && r.web.last.Code == 404:
			// "latest" need not be addressable for a mutation
		case err != nil:
			r.clientErr(base, ik, err)
			return
		default:
			r.mutated("seen", name, want)
		}
		r.checkEffect(opc, before, "MarkSeen returned "+errStr(err))
		return
	}
	opc := "rest/PATCH" + ik
	body := map[string]string{"true": `{"seen":true}`, "false": `{"seen":false}`, "junk": `{"seen":`}[o.Patch]
	resp := r.web.request("PATCH", r.web.apiPath(r.enc(key), r.enc(id)), []byte(body))
	switch o.Patch {
	case "junk":
		// not a well-formed request: any status, but no panic and no change
		if resp.Panic != "" {
			r.fail("rest/PATCH(malformed-body)", "->panic", "%s: handler panicked: %s at %s", resp.Line, resp.Panic, resp.Where)
			return
		}
	case "false":
		// a well-formed request that asks for nothing
		if resp.Panic != "" || resp.Code >= 500 {
			r.okStatus("rest/PATCH(seen=false)"+ik, resp)
			return
		}
	default:
		switch {
		case want == nil:
			if r.okStatus(opc, resp, 404) {
				r.c.Stat("probe.missing_answered_404", 1)
			}
		case o.IDK == "latest" && resp.Panic == "" && resp.Code == 404:
		case r.okStatus(opc, resp, 200):
			r.mutated("seen", name, want)
		default:
			return
		}
	}
	r.checkEffect(opc, before, "mark-seen answered "+resp.outcome())
}

func (r *apiRig) doDelete(name, key, id string, want *models.Msg, o c14Op) {
	before := r.model.Clone()
	ik := idKind(o, want)
	switch o.Iface {
	case "client", "hdr", "msg":
		r.c.Stat("probe.client_calls", 1)
		base := "client.DeleteMessage"
		var err error
		switch o.Iface {
		case "hdr":
			if want == nil {
				return
			}
			h := r.listHeader(key, want)
			if h == nil {
				return
			}
			base, ik = "client.MessageHeader.Delete", ""
			err = h.Delete()
		case "msg":
			if want == nil {
				return
			}
			m, gerr := r.cl.GetMessage(key, id)
			if gerr != nil || m == nil || m.JSONMessageV1 == nil {
				r.clientErr("client.GetMessage", ik, gerr)
				return
			}
			base, ik = "client.Message.Delete", ""
			err = m.Delete()
		default:
			err = r.cl.DeleteMessage(key, id)
		}
		opc := base + ik
		switch {
		case want == nil:
			r.clientMissing(base, ik, err)
		case err != nil && o.IDK == "latest" && o.Iface == "client" && r.web.last.Panic == "" && r.web.last.Code == 404:
		case err != nil:
			r.clientErr(base, ik, err)
			return
		default:
			r.mutated("delete", name, want)
		}
		r.checkEffect(opc, before, "delete returned "+errStr(err))
	default:
		opc := "rest/DELETE" + ik
		resp := r.web.request("DELETE", r.web.apiPath(r.enc(key), r.enc(id)), nil)
		switch {
		case want == nil:
			if r.okStatus(opc, resp, 404) {
				r.c.Stat("probe.missing_answered_404", 1)
			}
		case o.IDK == "latest" && resp.Panic == "" && resp.Code == 404:
		case r.okStatus(opc, resp, 200):
			r.mutated("delete", name, want)
		default:
			return
		}
		r.checkEffect(opc, before, "delete answered "+resp.outcome())
	}
}

func runC14(c *Ctx, cs Case) {
	k := cs.(*c14Case)
	if k.Store.Backend == "file" {
		ensureFS(c.Sim)
	}
	eh := extension.NewHost()
	st, err := openStore(k.Store, eh)
	if err != nil {
		panic("harness: cannot open store: " + err.Error())
	}
	root := baseRoot()
	setNaming(root, k.Naming)
	root.Web.BasePath = k.Base
	root.Web.UIDir = "/nonexistent/ui"
	ap := &policy.Addressing{Config: root}
	mgr := &message.StoreManager{AddrPolicy: ap, Store: st, ExtHost: eh}
	web := startWeb(c, root, mgr, eh)
	r := &apiRig{c: c, k: k, web: web, cl: web.newClient(k.URLSlash), store: st, model: models.NewMailStore(0, 0),
		removed: map[string][]string{}, absent: absentName(k.Naming)}
	// a mailbox "can receive mail" when RCPT would accept its address and the
	// mail is then stored under the name the reference model gives (disputed
	// naming is C04's subject, not this check's)
	for _, b := range k.Boxes {
		rc, err := ap.NewRecipient(b.Addr)
		ok := err == nil && rc.Mailbox == b.Name
		if !ok {
			c.Stat("probe.box_not_usable", 1)
			c.Logf("box %q not usable: err=%v", b.Addr, err)
		}
		r.usable = append(r.usable, ok)
	}
	for i, o := range k.Ops {
		r.apply(i, o)
		if c.Failed() {
			return
		}
		c.Distinct("model_states", r.model.Hash())
	}
	r.op, r.key = c14Op{Kind: "final"}, ""
	if d := r.diffStore(r.model); d != "" {
		c.Failf("final-store-differs", "after the history the store differs from the expected state: %s", d)
	}
	c.Main.Quiesce()
	c.Stat("probe.api_requests", int64(web.nreq))
	if r.onLive > 0 {
		c.NonTrivial(r.model.Hash(), len(k.Ops), k.Store.Backend, k.Naming, k.Base)
	}
}

func init() {
	register(&Prop{
		ID:    "C14",
		Level: "exploration",
		Gen:   genC14,
		Run:   runC14,
		Config: func(cs Case) simrt.Config {
			return simrt.Config{NoJumps: true, MaxSteps: 400000, MaxSimTime: 6 * time.Hour}
		},
		BudgetIsViolation: true,
		QuickRuns:         10000,
		ThoroughRuns:      200000,
		Rule: "a fresh mux router installed as web.Router with the REST and web-UI routes under a seeded base path (\"\", prefix, /inbucket/, a/b), " +
			"web.NewServer, the real StoreManager over the real memory or file store (simulated disk), hub running; per run a naming mode, 1-3 " +
			"mailboxes whose names come from addresses with plain, URL-significant (% ? # & * ' ^ { | } ~ $ ! `) and slash-containing local parts " +
			"and name / IP-literal domains, and a history of 6-35 operations: deliveries (plain and multipart/alternative messages, 0-5000 filler " +
			"bytes) mixed with list / get / source / html / mark-seen / delete / purge issued as raw HTTP/1.1 requests (rendered to wire form and " +
			"parsed by http.ReadRequest, two percent-encoding styles) to the REST API and the web UI, and through the bundled Go client over an " +
			"in-process transport (ListMailbox, GetMessage, GetMessageSource, MarkSeen, DeleteMessage, PurgeMailbox, MessageHeader.GetMessage/" +
			"GetSource/Delete, Message.GetSource/Delete); mailbox keys: the name, the full address, upper/mixed case, +tag; ids: live, 'latest', " +
			"never issued (some needing percent-encoding), formerly live; a mailbox that never receives mail. Three features are switched on per run " +
			"only (1/8 slash in a name, 1/6 mark-seen through the client, 1/6 case variants that also permute the domain) and off by the avoid " +
			"switches slash-in-name, client-markseen, domain-case. Oracle: reported JSON metadata, " +
			"decoded content and source bytes equal the model's (= the store's, compared in full after every mutation request); a request about a " +
			"missing message is answered 404 and changes nothing; no 5xx and no handler panic; every client method has its named effect. " +
			"non-trivial = at least one API request addressed a non-empty mailbox; distinct by final model state, history length, back-end, naming, base path",
		Real: []string{"gorilla/mux router", "pkg/rest", "pkg/rest/client", "pkg/webui (controllers)", "pkg/server/web (handlers, context, NewServer)",
			"pkg/message (StoreManager)", "pkg/policy", "pkg/storage/mem", "pkg/storage/file", "pkg/msghub", "net/http request parser and client"},
		Stub: []string{"TCP between client and server (requests are handed to web.Router.ServeHTTP in wire-parsed form)", "disk (simfs)", "scheduler", "sync", "clock"},
		Assumptions: []string{
			"sequential histories (concurrent store access is C09); deliveries go straight to Store.AddMessage so the model knows every byte",
			"only mailboxes whose address RCPT accepts and whose name the implementation and the reference model agree on are used (naming disputes are C04)",
			"WebSocket monitor routes, attachments and the static UI are out of scope",
			"a handler panic is caught by the harness as net/http would and reported as a violation",
		},
	})
}
