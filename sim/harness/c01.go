package harness

import (
	"bytes"
	"fmt"
	"sort"
	"strings"
	"time"

	"github.com/inbucket/inbucket/v3/pkg/config"
	"github.com/inbucket/inbucket/v3/pkg/extension"
	"github.com/inbucket/inbucket/v3/vsim/models"
	"github.com/inbucket/inbucket/v3/vsim/simnet"
	"github.com/inbucket/inbucket/v3/vsim/simrt"
)

// C01: accepted mail is stored exactly once per accepted recipient, and only then.

type smtpTxn struct {
	Greet string // "" | HELO | EHLO (sent before this transaction)
	From  string
	Rcpts []string
	End   string // data rset ehlo quit close data-cut data-unread noop-then-data
	Token string
	Extra int
}

func (t smtpTxn) String() string {
	return fmt.Sprintf("greet=%q MAIL<%s> RCPT%v end=%s token=%s extra=%d", t.Greet, t.From, t.Rcpts, t.End, t.Token, t.Extra)
}

type smtpSwarm struct {
	Store  StoreCfg
	Naming string
	Pol    models.Policy
	Net    simnet.Profile
}

func (s smtpSwarm) String() string {
	return fmt.Sprintf("store=%s naming=%s defaultAccept=%v accept=%v reject=%v defaultStore=%v store=%v discard=%v rejectOrigin=%v maxRcpt=%d %s",
		s.Store, s.Naming, s.Pol.DefaultAccept, s.Pol.AcceptDomains, s.Pol.RejectDomains, s.Pol.DefaultStore, s.Pol.StoreDomains,
		s.Pol.DiscardDomains, s.Pol.RejectOrigin, s.Pol.MaxRecipients, profileString(s.Net))
}

type c01Case struct {
	Sw      smtpSwarm
	Clients [][]smtpTxn
	Fault   fsFault // file back-end: armed when transaction number Target (counted over all clients) sends its data
}

func (k *c01Case) Describe() []string {
	l := []string{k.Sw.String()}
	if k.Fault.On {
		l = append(l, k.Fault.String())
	}
	for ci, txs := range k.Clients {
		for i, t := range txs {
			l = append(l, fmt.Sprintf("client%d txn%d %s", ci, i, t))
		}
	}
	return l
}

var smtpDomains = []string{"example.com", "store.test", "discard.test", "reject.test", "accept.test", "other.org"}
var smtpLocals = []string{"alice", "bob", "carol.d", "dave-e", "e_f", "g1", "Alice", "BOB"}
var smtpSenders = []string{"good@example.org", "someone@sender.test", "x@bad.org", "y@a.spam.test", "", "no-at-sign", "two@@ats.test"}
var smtpBadRcpts = []string{"no-at-sign", "a b@example.com", "@example.com", "x@", "x@-bad-.com", ".dot@example.com", "a..b@example.com"}

func subset(w *simrt.Choices, l []string) []string {
	var out []string
	for _, x := range l {
		if w.Choose(3) == 0 {
			out = append(out, x)
		}
	}
	return out
}

func genSwarm(w *simrt.Choices) smtpSwarm {
	var s smtpSwarm
	s.Store = StoreCfg{Backend: []string{"mem", "file"}[w.Choose(2)]}
	s.Naming = []string{"local", "full", "domain"}[w.Choose(3)]
	s.Pol.DefaultAccept = w.Choose(3) != 0
	s.Pol.DefaultStore = w.Choose(3) != 0
	s.Pol.AcceptDomains = subset(w, smtpDomains)
	s.Pol.RejectDomains = subset(w, smtpDomains)
	s.Pol.StoreDomains = subset(w, smtpDomains)
	s.Pol.DiscardDomains = subset(w, smtpDomains)
	if w.Choose(2) == 0 {
		s.Pol.RejectOrigin = []string{"bad.org", "*.spam.test"}
	}
	s.Pol.MaxRecipients = 1 + w.Choose(5)
	s.Net = netProfile(w)
	return s
}

func (s smtpSwarm) root() *config.Root {
	root := baseRoot()
	setNaming(root, s.Naming)
	root.SMTP.DefaultAccept = s.Pol.DefaultAccept
	root.SMTP.DefaultStore = s.Pol.DefaultStore
	root.SMTP.AcceptDomains = s.Pol.AcceptDomains
	root.SMTP.RejectDomains = s.Pol.RejectDomains
	root.SMTP.StoreDomains = s.Pol.StoreDomains
	root.SMTP.DiscardDomains = s.Pol.DiscardDomains
	root.SMTP.RejectOriginDomains = s.Pol.RejectOrigin
	root.SMTP.MaxRecipients = s.Pol.MaxRecipients
	return root
}

func genRcpt(w *simrt.Choices) string {
	if w.Choose(8) == 0 {
		return smtpBadRcpts[w.Choose(len(smtpBadRcpts))]
	}
	l := smtpLocals[w.Choose(len(smtpLocals))]
	if w.Choose(4) == 0 {
		l += "+" + []string{"tag", "x.y", "2"}[w.Choose(3)]
	}
	return l + "@" + smtpDomains[w.Choose(len(smtpDomains))]
}

func genC01(w *simrt.Choices, tier string, avoid map[string]bool) Case {
	k := &c01Case{Sw: genSwarm(w)}
	nc := 1 + w.Choose(3)
	tok := 0
	budget := 12
	for c := 0; c < nc; c++ {
		var txs []smtpTxn
		for i, n := 0, 1+w.Choose(4); i < n && budget > 0; i++ {
			budget--
			tok++
			t := smtpTxn{Token: fmt.Sprintf("tok%dc%d", tok, c)}
			if i == 0 {
				t.Greet = []string{"HELO", "EHLO", "EHLO", ""}[w.Choose(4)]
			} else if w.Choose(6) == 0 {
				t.Greet = "EHLO"
			}
			t.From = smtpSenders[w.Choose(len(smtpSenders))]
			if w.Choose(3) != 0 {
				t.From = smtpSenders[w.Choose(2)]
			}
			for j, nr := 0, w.Choose(5); j < nr; j++ {
				r := genRcpt(w)
				if j > 0 && w.Choose(6) == 0 {
					r = t.Rcpts[w.Choose(len(t.Rcpts))] // verbatim duplicate
				}
				t.Rcpts = append(t.Rcpts, r)
			}
			t.End = []string{"data", "data", "data", "data", "rset", "ehlo", "quit", "close", "data-cut", "data-unread"}[w.Choose(10)]
			t.Extra = []int{0, 10, 300, 2000}[w.Choose(4)]
			txs = append(txs, t)
			if t.End == "quit" || t.End == "close" || t.End == "data-cut" || t.End == "data-unread" {
				break
			}
		}
		k.Clients = append(k.Clients, txs)
	}
	if k.Sw.Store.Backend == "file" {
		// armed in one of the transactions that get as far as sending data
		var cand []int
		nt := 0
		for _, txs := range k.Clients {
			for _, t := range txs {
				if t.End == "data" || t.End == "noop-then-data" {
					cand = append(cand, nt)
				}
				nt++
			}
		}
		k.Fault = genFSFault(w, len(cand))
		if k.Fault.On {
			k.Fault.Target = cand[k.Fault.Target]
		}
	}
	return k
}

// expectation for one (mailbox, token)
type expCount struct{ min, max int }

type c01Run struct {
	c       *Ctx
	k       *c01Case
	expect  map[string]*expCount // "mailbox\x00token"
	maybe   map[string]bool      // tokens whose transaction may or may not have completed (client did not read the reply)
	data    map[string][]byte    // token -> transmitted data
	from    map[string]string    // token -> header From address
	to      map[string][]string  // token -> header To addresses
	pol     *models.Policy
	txnBase []int               // number of the first transaction of each client, counted over all clients
	refused map[string][]string // token -> mailboxes of a transaction refused after an injected disk fault
}

func (r *c01Run) addExpect(mailbox, token string, n int, dup bool) {
	key := mailbox + "\x00" + token
	e := r.expect[key]
	if e == nil {
		e = &expCount{}
		r.expect[key] = e
	}
	if dup {
		e.max += n
	} else {
		e.min += n
		e.max += n
	}
}

// runClient plays one client's transactions reply-driven.
func (r *c01Run) runClient(ci int, txs []smtpTxn) {
	c := r.c
	name := fmt.Sprintf("client%d", ci)
	cl, err := dialSMTP(c, name, 400*time.Second)
	if err != nil {
		c.Failf("dial-refused", "%s: %v", name, err)
		return
	}
	defer cl.close()
	if g := cl.readReply(); g.Code != 220 {
		c.Failf("no-greeting", "%s: expected 220 greeting, got %s", name, g)
		return
	}
	// envelope state as the replies define it: a transaction stays open (and
	// keeps its recipients) until DATA completes, RSET or EHLO
	open := false
	var accepted []string
	for ti, t := range txs {
		if t.Greet != "" {
			if g := cl.cmd(t.Greet + " client.sim"); g.ok2xx() {
				open, accepted = false, nil
			}
		}
		if cl.cmd("MAIL FROM:<" + t.From + ">").ok2xx() {
			if open {
				c.Failf("mail-accepted-inside-transaction", "%s: MAIL accepted while a transaction was already open", name)
			}
			open, accepted = true, nil
		}
		for _, rc := range t.Rcpts {
			if rp := cl.cmd("RCPT TO:<" + rc + ">"); rp.ok2xx() {
				if !open {
					c.Failf("rcpt-accepted-without-mail", "%s: RCPT <%s> answered %s although no transaction is open", name, rc, rp)
				}
				accepted = append(accepted, rc)
			}
		}
		data := mkMessage(t.Token, "hdrfrom@sender.test", t.Rcpts, t.Extra, uint64(len(t.Token)))
		r.data[t.Token] = data
		complete := func(certain bool) {
			seenAddr := map[string]int{}
			for _, a := range accepted {
				seenAddr[a]++
			}
			counted := map[string]bool{}
			for _, a := range accepted {
				_, dom, _ := models.SplitAddress(a)
				if !r.pol.StoreRecipient(dom) {
					continue
				}
				mb, ok := models.MailboxName(r.k.Sw.Naming, a)
				if !ok {
					c.Failf("accepted-unnameable-recipient", "%s: server accepted RCPT <%s>, which names no mailbox", name, a)
					continue
				}
				if counted[a] {
					continue
				}
				counted[a] = true
				// first copy is certain, further verbatim duplicates optional
				if certain {
					r.addExpect(mb, t.Token, 1, false)
				} else {
					r.addExpect(mb, t.Token, 1, true)
				}
				if seenAddr[a] > 1 {
					r.addExpect(mb, t.Token, seenAddr[a]-1, true)
				}
			}
		}
		switch t.End {
		case "data", "noop-then-data":
			rp := cl.cmd("DATA")
			if rp.Code == 354 {
				if len(accepted) == 0 {
					c.Failf("data-without-recipient", "%s: DATA answered 354 with no accepted recipient", name)
				}
				fired := fsFired(c.Sim)
				disarm := func() int { return 0 }
				if r.k.Fault.On && r.k.Fault.Target == r.txnBase[ci]+ti {
					disarm = r.k.Fault.arm(c.Sim)
				}
				fin := cl.sendData(data)
				disarm()
				switch {
				case fin.Code == 250:
					complete(true) // acknowledged is acknowledged, whatever the disk did
				case fsFired(c.Sim) > fired:
					// the disk failed while this transaction was being stored and the
					// server said so: each of ITS recipients may or may not have a copy
					complete(false)
					c.Stat("probe.transaction_refused_after_disk_fault", 1)
					// ... but not every one of them: the server said the message was not stored
					var mbs []string // one entry per accepted, storable recipient (a mailbox named twice is expected to get two copies)
					for _, a := range accepted {
						_, dom, _ := models.SplitAddress(a)
						if mb, ok := models.MailboxName(r.k.Sw.Naming, a); ok && r.pol.StoreRecipient(dom) {
							mbs = append(mbs, mb)
						}
					}
					if r.refused == nil {
						r.refused = map[string][]string{}
					}
					r.refused[t.Token] = mbs
				}
				open, accepted = false, nil
			}
		case "rset":
			if cl.cmd("RSET").ok2xx() {
				open, accepted = false, nil
			}
		case "ehlo":
			if cl.cmd("EHLO again.sim").ok2xx() {
				open, accepted = false, nil
			}
		case "quit":
			cl.cmd("QUIT")
			return
		case "close":
			return
		case "data-cut":
			if rp := cl.cmd("DATA"); rp.Code == 354 {
				stuffed := dotStuff(data)
				_ = cl.write(stuffed[:len(stuffed)/2])
				c.Stat("fault.conn_cut_mid_data", 1)
			}
			return
		case "data-unread":
			if rp := cl.cmd("DATA"); rp.Code == 354 {
				_ = cl.write(dotStuff(data))
				complete(false)
				c.Stat("fault.conn_closed_before_reading_reply", 1)
			}
			return
		}
	}
	cl.cmd("QUIT")
}

func runC01(c *Ctx, cs Case) {
	k := cs.(*c01Case)
	if k.Sw.Store.Backend == "file" {
		ensureFS(c.Sim)
	}
	simnet.Of(c.Sim).Profile = k.Sw.Net
	eh := extension.NewHost()
	st, err := openStore(k.Sw.Store, eh)
	if err != nil {
		panic(err)
	}
	root := k.Sw.root()
	env := startSMTP(c, root, st, eh)
	r := &c01Run{c: c, k: k, expect: map[string]*expCount{}, data: map[string][]byte{}, pol: toModelPolicy(root)}
	nt := 0
	for _, txs := range k.Clients {
		r.txnBase = append(r.txnBase, nt)
		nt += len(txs)
	}
	for ci, txs := range k.Clients {
		ci, txs := ci, txs
		c.Go(fmt.Sprintf("client%d", ci), func() { r.runClient(ci, txs) })
	}
	c.JoinAll()
	env.stop()
	if c.Failed() {
		return
	}
	// ---- oracle: conservation over ALL mailboxes ----
	var names []string
	for key := range r.expect {
		names = append(names, key[:strings.Index(key, "\x00")])
	}
	sort.Strings(names)
	dump, err := dumpStore(st, names)
	if err != nil {
		c.Failf(tagOf(k.Sw.Store)+"/store-read-error", "reading the store back: %v", err)
		return
	}
	got := map[string]int{}
	var boxes []string
	for b := range dump {
		boxes = append(boxes, b)
	}
	sort.Strings(boxes)
	stored := 0
	for _, b := range boxes {
		for _, m := range dump[b] {
			stored++
			key := b + "\x00" + m.Token
			got[key]++
			data, known := r.data[m.Token]
			if !known {
				c.Failf("phantom-message", "mailbox %q holds a message with subject %q that no client sent", b, m.Subject)
				continue
			}
			if r.expect[key] == nil {
				c.Failf("message-in-wrong-mailbox("+k.Sw.Naming+")", "mailbox %q holds %s, but no accepted, storable recipient of that transaction names this mailbox", b, m.Token)
				continue
			}
			if m.Size != int64(len(m.Source)) {
				c.Failf("size-mismatch", "%s/%s: Size()=%d but the source has %d bytes", b, m.ID, m.Size, len(m.Source))
			}
			if !bytes.HasSuffix(normLF(m.Source), normLF(ensureCRLF(data))) {
				c.Failf("content-mismatch", "%s/%s (%s): stored source does not end with the transmitted data: stored %q, sent %q", b, m.ID, m.Token, short(m.Source), short(data))
			}
			if m.From != "hdrfrom@sender.test" {
				c.Failf("sender-mismatch", "%s/%s: From is %q, the message says hdrfrom@sender.test", b, m.ID, m.From)
			}
		}
	}
	var keys []string
	for key := range r.expect {
		keys = append(keys, key)
	}
	sort.Strings(keys)
	for _, key := range keys {
		e := r.expect[key]
		if n := got[key]; n < e.min || n > e.max {
			parts := strings.SplitN(key, "\x00", 2)
			what := "missing"
			if n > e.max {
				what = "duplicated"
			}
			c.Failf("message-"+what, "mailbox %q holds %d copies of %s, expected %d..%d (naming=%s)", parts[0], n, parts[1], e.min, e.max, k.Sw.Naming)
		}
	}
	var rtoks []string
	for tk := range r.refused {
		rtoks = append(rtoks, tk)
	}
	sort.Strings(rtoks)
	for _, tk := range rtoks {
		mbs := r.refused[tk]
		want := map[string]int{}
		for _, mb := range mbs {
			want[mb]++
		}
		have := 0
		for mb, n := range want {
			if g := got[mb+"\x00"+tk]; g >= n {
				have += n
			} else {
				have += g
			}
		}
		if len(mbs) > 0 && have == len(mbs) {
			c.Failf("refused-transaction-fully-stored", "%s was refused after the data (disk fault injected), yet every one of its recipients' mailboxes %v holds it: a client that retries delivers it twice", tk, mbs)
		}
	}
	c.Stat("probe.messages_stored", int64(stored))
	if stored > 0 {
		c.NonTrivial(stored, len(keys), k.Sw.Naming, k.Sw.Store.Backend, c.Sim.Steps)
	}
}

func normLF(b []byte) []byte { return bytes.ReplaceAll(b, []byte("\r\n"), []byte("\n")) }

func ensureCRLF(b []byte) []byte {
	if bytes.HasSuffix(b, []byte("\r\n")) {
		return b
	}
	return append(append([]byte{}, b...), '\r', '\n')
}

func init() {
	register(&Prop{
		ID:    "C01",
		Level: "exploration",
		Gen:   genC01,
		Run:   runC01,
		Config: func(cs Case) simrt.Config {
			return simrt.Config{NoJumps: true, MaxSteps: 400000, MaxSimTime: 6 * time.Hour}
		},
		BudgetIsViolation: true,
		QuickRuns:         8000,
		ThoroughRuns:      300000,
		RaceCompanion:     "C01R",
		Rule: "the real SMTP server (Start -> serve -> Accept -> startSession -> StoreManager.Deliver -> real mem/file store) on the simulated " +
			"network; 1-3 concurrent reply-driven clients play up to 12 transactions in total from a grammar (HELO/EHLO/no greeting, valid / " +
			"malformed / origin-rejected senders, 0-4 recipients: valid, malformed, duplicate, +tag aliases, rejected and discard domains, " +
			"beyond MaxRecipients; ending in DATA, RSET, EHLO, QUIT, abrupt close, close in the middle of DATA, close before reading the " +
			"final reply); per-run swarm: naming mode, accept/store defaults and lists, MaxRecipients 1-5, back-end, write segmentation, " +
			"delivery delay and buffer sizes of the simulated connections. At quiescence the multiset of (mailbox, token) over ALL mailboxes " +
			"must equal what the replies promise (one per accepted, storable recipient of every 250-acknowledged transaction; verbatim " +
			"duplicates 1..k; unread final reply 0..all). non-trivial = at least one message stored",
		Real: []string{"pkg/server/smtp", "pkg/message", "pkg/policy", "pkg/storage/mem", "pkg/storage/file", "net/textproto"},
		Stub: []string{"TCP (simnet listener/conn)", "scheduler", "sync", "disk (simfs)", "clock"},
		Assumptions: []string{
			"addresses are drawn from the class where mailbox naming is undisputed (lower-case domains, non-empty base name); the disputed class is C04's subject",
			"cap, size limit and retention are off (they are C08/C12's subject)",
		},
	})
}

func init() {
	register(&Prop{
		ID:    "C01R",
		Level: "exploration",
		Gen: func(w *simrt.Choices, tier string, avoid map[string]bool) Case {
			k := genC01(w, tier, avoid).(*c01Case)
			k.Fault = fsFault{}
			return k
		},
		Run: runC01,
		Config: func(cs Case) simrt.Config {
			return simrt.Config{NoJumps: true, MaxSteps: 400000, MaxSimTime: 6 * time.Hour}
		},
		RaceMode:     true,
		QuickRuns:    1200,
		ThoroughRuns: 30000,
		Rule: "race-mode companion of C01: the same concurrent SMTP clients, policies, naming modes and back-ends (no disk faults) in a -race binary. Code without a scheduling " +
			"point runs atomically in the simulation, so state shared between sessions without any lock (a package-level scratch buffer in address parsing, " +
			"wildcard matching, hashing ...) never misbehaves there; ThreadSanitizer sees it by happens-before: the simulator's hand-off is hidden from it, " +
			"Inbucket's own synchronisation is published, and a report counts when, for both accesses, the innermost frame belonging to this module is Inbucket code",
		Real: []string{"pkg/server/smtp", "pkg/message", "pkg/policy", "pkg/stringutil", "pkg/extension", "pkg/storage/mem", "pkg/storage/file"},
		Stub: []string{"TCP (simnet)", "scheduler", "sync (edges published to ThreadSanitizer)", "disk (simfs; reports about its own bookkeeping are ignored)", "clock"},
	})
}
