package harness

import (
	"bufio"
	"bytes"
	"context"
	"encoding/json"
	"fmt"
	"io"
	"net/http"
	"net/http/httptest"
	"runtime/debug"
	"strconv"
	"strings"
	"testing/iotest"
	"time"

	"github.com/inbucket/inbucket/v3/pkg/config"
	"github.com/inbucket/inbucket/v3/pkg/extension"
	"github.com/inbucket/inbucket/v3/pkg/message"
	"github.com/inbucket/inbucket/v3/pkg/msghub"
	"github.com/inbucket/inbucket/v3/pkg/rest"
	"github.com/inbucket/inbucket/v3/pkg/rest/client"
	"github.com/inbucket/inbucket/v3/pkg/server/web"
	"github.com/inbucket/inbucket/v3/pkg/stringutil"
	"github.com/inbucket/inbucket/v3/pkg/webui"
	"github.com/inbucket/inbucket/v3/vsim/simrt"
)

// HTTP kit: the real router, REST and web-UI handlers of Inbucket, wired as
// pkg/server/lifecycle.go wires them, served in-process.  No socket is
// involved: every request is rendered to HTTP/1.1 wire form and parsed back
// with http.ReadRequest, so URL.Path, RawPath, Host and RequestURI are what a
// connection would deliver, and then handed to web.Router.ServeHTTP from the
// calling harness task.

const webHost = "inbucket.sim:9000"

// basePaths are the values of INBUCKET_WEB_BASEPATH the swarm draws from.
var basePaths = []string{"", "prefix", "/inbucket/", "a/b"}

// httpResp is what a client on the other side of a connection would see.
type httpResp struct {
	Code   int
	Header http.Header
	Body   []byte
	Panic  string // non-empty: the handler panicked (net/http would drop the connection)
	Where  string // innermost Inbucket frame of the panic
	Line   string // request line, for messages
}

func (r httpResp) String() string {
	if r.Panic != "" {
		return fmt.Sprintf("<handler panic: %s at %s>", r.Panic, r.Where)
	}
	return fmt.Sprintf("%d %q", r.Code, clipStr(string(r.Body), 160))
}

// outcome is the short form used in violation classes.
func (r httpResp) outcome() string {
	if r.Panic != "" {
		return "panic"
	}
	return fmt.Sprint(r.Code)
}

type webEnv struct {
	c      *Ctx
	root   *config.Root
	mgr    message.Manager
	hub    *msghub.Hub
	prefix func(string) string
	cancel context.CancelFunc
	last   httpResp // last response served (the client transport records here)
	nreq   int
}

// startWeb builds a FRESH router, installs it as the package global
// web.Router, and sets up routes and server state exactly like
// server.FullAssembly does.  The listener itself (Server.Start) is not used.
func startWeb(c *Ctx, root *config.Root, mgr message.Manager, eh *extension.Host) *webEnv {
	e := &webEnv{c: c, root: root, mgr: mgr}
	e.prefix = stringutil.MakePathPrefixer(root.Web.BasePath)
	web.Router = web.NewRouter()
	e.hub = msghub.New(root.Web.MonitorHistory, eh)
	webui.SetupRoutes(web.Router.PathPrefix(e.prefix("/serve/")).Subrouter())
	rest.SetupRoutes(web.Router.PathPrefix(e.prefix("/api/")).Subrouter())
	web.NewServer(root, mgr, e.hub)
	ctx, cancel := context.WithCancel(context.Background())
	e.cancel = cancel
	// the hub consumes the stored/deleted events of the extension host; it is
	// left running at the end of the run (cancelling it closes its queue)
	simrt.Go("msghub.Start", func() { e.hub.Start(ctx) })
	c.Main.Quiesce()
	return e
}

// serve hands a parsed request to the router; a handler panic is caught and
// reported in the response.
func (e *webEnv) serve(req *http.Request) (resp httpResp) {
	e.nreq++
	if req.Body != nil && req.Body != http.NoBody {
		// a body arrives in as many pieces as the network likes: hand it over byte by byte
		req.Body = io.NopCloser(iotest.OneByteReader(req.Body))
	}
	req.RemoteAddr = "192.0.2.7:40000"
	resp.Line = req.Method + " " + req.RequestURI
	rec := httptest.NewRecorder()
	func() {
		defer func() {
			if p := recover(); p != nil {
				resp.Panic = normMsg(fmt.Sprint(p))
				resp.Where = innermostFrame(string(debug.Stack()))
			}
		}()
		web.Router.ServeHTTP(rec, req)
	}()
	resp.Code = rec.Code
	resp.Header = rec.Header()
	resp.Body = rec.Body.Bytes()
	if cl := resp.Header.Get("Content-Length"); cl != "" && resp.Panic == "" && req.Method != "HEAD" {
		// a real connection would cut the body short or fail the request
		if n, err := strconv.Atoi(cl); err != nil || n != len(resp.Body) {
			e.c.Failf("http/content-length-differs-from-body", "%s: the response announces Content-Length %s but its body has %d bytes", resp.Line, cl, len(resp.Body))
		}
	}
	e.last = resp
	e.c.Logf("http %s -> %s", resp.Line, resp)
	return resp
}

func innermostFrame(stack string) string {
	for _, ln := range strings.Split(stack, "\n") {
		if strings.HasPrefix(ln, "github.com/inbucket/inbucket/v3/pkg/") {
			f := strings.TrimPrefix(ln, "github.com/inbucket/inbucket/v3/pkg/")
			if i := strings.LastIndex(f, "("); i > 0 {
				f = f[:i]
			}
			return f
		}
	}
	return "?"
}

// request issues one raw request.  target is the request-target exactly as it
// goes on the wire (already percent-encoded).
func (e *webEnv) request(method, target string, body []byte) httpResp {
	var b bytes.Buffer
	fmt.Fprintf(&b, "%s %s HTTP/1.1\r\nHost: %s\r\nUser-Agent: sim\r\nAccept: */*\r\n", method, target, webHost)
	if body != nil {
		fmt.Fprintf(&b, "Content-Type: application/json\r\nContent-Length: %d\r\n", len(body))
	}
	b.WriteString("\r\n")
	b.Write(body)
	req, err := http.ReadRequest(bufio.NewReader(&b))
	if err != nil {
		panic(fmt.Sprintf("harness: generated a malformed request %s %q: %v", method, target, err))
	}
	return e.serve(req)
}

// apiPath / uiPath build request-targets under the configured base path.
func (e *webEnv) apiPath(segs ...string) string {
	return e.prefix("/api/v1/mailbox/" + strings.Join(segs, "/"))
}

func (e *webEnv) uiPath(segs ...string) string {
	return e.prefix("/serve/mailbox/" + strings.Join(segs, "/"))
}

// encSeg percent-encodes one path segment.  style 0 encodes everything but
// RFC 3986 unreserved characters; style 1 leaves the sub-delims, ':' and '@'
// (legal in a path segment) as they are.  Both are proper encodings of the
// same segment.
func encSeg(s string, style int) string {
	var b strings.Builder
	for i := 0; i < len(s); i++ {
		ch := s[i]
		switch {
		case 'a' <= ch && ch <= 'z', 'A' <= ch && ch <= 'Z', '0' <= ch && ch <= '9', strings.IndexByte("-._~", ch) >= 0:
			b.WriteByte(ch)
		case style == 1 && strings.IndexByte("!$&'()*+,;=:@", ch) >= 0:
			b.WriteByte(ch)
		default:
			fmt.Fprintf(&b, "%%%02X", ch)
		}
	}
	return b.String()
}

// inProcTransport is the http.RoundTripper given to the bundled Go client.
type inProcTransport struct{ e *webEnv }

func (t inProcTransport) RoundTrip(req *http.Request) (*http.Response, error) {
	var b bytes.Buffer
	if err := req.Write(&b); err != nil {
		return nil, fmt.Errorf("cannot serialise request: %v", err)
	}
	r2, err := http.ReadRequest(bufio.NewReader(&b))
	if err != nil {
		t.e.last = httpResp{Code: 400, Line: req.Method + " " + req.URL.String()}
		return nil, fmt.Errorf("server cannot parse the request the client sent: %v", err)
	}
	resp := t.e.serve(r2)
	if resp.Panic != "" {
		return nil, fmt.Errorf("connection closed by server without a response (handler panic: %s)", resp.Panic)
	}
	out := &http.Response{
		Status: fmt.Sprintf("%d %s", resp.Code, http.StatusText(resp.Code)), StatusCode: resp.Code,
		Proto: "HTTP/1.1", ProtoMajor: 1, ProtoMinor: 1,
		Header: resp.Header.Clone(), Body: nopBody{bytes.NewReader(resp.Body)}, ContentLength: int64(len(resp.Body)), Request: req,
	}
	return out, nil
}

type nopBody struct{ *bytes.Reader }

func (nopBody) Close() error { return nil }

// newClient returns the bundled client talking to this environment.
func (e *webEnv) newClient(trailingSlash ...bool) *client.Client {
	base := "http://" + webHost + e.prefix("")
	if len(trailingSlash) > 0 && trailingSlash[0] {
		base += "/" // "http://localhost:9000/" is what the client's own documentation and tests use
	}
	cl, err := client.New(base, client.WithTransport(inProcTransport{e}))
	if err != nil {
		panic("harness: client.New: " + err.Error())
	}
	return cl
}

// ---- JSON shapes of the documented API (field names from the REST / UI contract) ----

type apiBody struct {
	Text string `json:"text"`
	HTML string `json:"html"`
}

// apiMsg is the union of the list entry, the REST message and the web-UI message.
type apiMsg struct {
	Mailbox     *string             `json:"mailbox"`
	ID          string              `json:"id"`
	From        string              `json:"from"`
	To          []string            `json:"to"`
	Subject     string              `json:"subject"`
	Date        time.Time           `json:"date"`
	PosixMillis int64               `json:"posix-millis"`
	Size        int64               `json:"size"`
	Seen        bool                `json:"seen"`
	Body        *apiBody            `json:"body"`   // REST
	Header      map[string][]string `json:"header"` // REST, UI
	Text        string              `json:"text"`   // UI
	HTML        string              `json:"html"`   // UI
}

func (m *apiMsg) mailbox() string {
	if m.Mailbox == nil {
		return ""
	}
	return *m.Mailbox
}

func decodeList(b []byte) ([]*apiMsg, error) {
	var l []*apiMsg
	if err := json.Unmarshal(b, &l); err != nil {
		return nil, err
	}
	for i, m := range l {
		if m == nil {
			return nil, fmt.Errorf("entry %d is null", i)
		}
	}
	return l, nil
}

func decodeMsg(b []byte) (*apiMsg, error) {
	var m apiMsg
	if err := json.Unmarshal(b, &m); err != nil {
		return nil, err
	}
	return &m, nil
}
