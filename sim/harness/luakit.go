package harness

import (
	"fmt"
	"strconv"
	"strings"

	"github.com/inbucket/inbucket/v3/vsim/models"
	"github.com/inbucket/inbucket/v3/vsim/simrt"
)

// luakit: a grammar of Lua extension scripts.  A script is described by a
// luaSpec (abstract handlers from models/hookmodel.go plus spelling choices)
// and rendered to Lua source text.  Only the Lua API that
// pkg/extension/luahost's own tests use is relied on: inbucket.before.* /
// inbucket.after.*, smtp.allow/deny/defer, inbound_message.new, address.new,
// field access on session / message / address objects.

type luaSpec struct {
	Mail, Rcpt   *models.SMTPHook
	Msg          *models.MsgHook
	AfterStored  int // 0 = handler absent, else body form
	AfterDeleted int
	Style        int  // how handlers are attached
	Stateful     bool // handlers keep per-state globals (must not matter)
}

const (
	luaMutatedFrom = "mutated@hook.test"
	luaNestedFrom  = "nested@hook.test"
)

var luaDenyCodes = []int{550, 554, 451, 421, 503, 571}
var luaDenyTexts = []string{"denied by hook", "no 100% way", "go away (rule #7)", "x"}

var luaSMTPGarbage = []string{`"allow"`, `42`, `{}`, `{action = "deny", code = 550}`, `true`, `false`, `session`,
	`address.new("a", "b@c.test")`, `inbound_message.new()`, `smtp.deny`, `smtp`}
var luaMsgGarbage = []string{`"keep"`, `7`, `{}`, `{mailboxes = {"stolen"}}`, `true`, `msg.from`, `smtp.allow()`,
	`smtp.deny(550, "no")`, `function() end`, `msg.mailboxes`}

// statements that raise; %s is the handler's argument name
var luaErrors = []string{`error("boom")`, `error({code = 2})`, "local t = nil\nreturn t.x", `return smtp.nosuch()`,
	`error()`, `assert(false, "assertion failed")`, `%s.from = nil`}
var luaMsgErrors = []string{`msg.size = 1`, `msg.nosuch = 1`, `msg.subject = nil`}

func luaQ(s string) string { return strconv.Quote(s) }

func luaCond(c models.Cond, arg string) string {
	from := arg + ".from.address"
	last := fmt.Sprintf("%s.to[#%s.to].address", arg, arg)
	switch c.Kind {
	case "always":
		return "true"
	case "from-prefix":
		return fmt.Sprintf("string.sub(%s, 1, %d) == %s", from, len(c.Arg), luaQ(c.Arg))
	case "from-contains":
		return fmt.Sprintf("string.find(%s, %s, 1, true) ~= nil", from, luaQ(c.Arg))
	case "last-to-prefix":
		return fmt.Sprintf("string.sub(%s, 1, %d) == %s", last, len(c.Arg), luaQ(c.Arg))
	case "last-to-contains":
		return fmt.Sprintf("string.find(%s, %s, 1, true) ~= nil", last, luaQ(c.Arg))
	case "to-count-gt":
		return fmt.Sprintf("#%s.to > %d", arg, c.N)
	case "subject-contains":
		return fmt.Sprintf("string.find(%s.subject, %s, 1, true) ~= nil", arg, luaQ(c.Arg))
	}
	return "false"
}

func luaErrorStmt(form int, arg string, msg bool) string {
	l := luaErrors
	if msg {
		l = append(append([]string{}, luaErrors...), luaMsgErrors...)
	}
	s := l[form%len(l)]
	if strings.Contains(s, "%s") {
		s = fmt.Sprintf(s, arg)
	}
	return s
}

func (sp *luaSpec) smtpAnswer(a models.SMTPAnswer) []string {
	var l []string
	if a.Mutate {
		l = append(l, "session.from.address = "+luaQ(luaMutatedFrom))
	}
	switch a.Kind {
	case "allow":
		l = append(l, "return smtp.allow()")
	case "defer":
		l = append(l, "return smtp.defer()")
	case "deny":
		l = append(l, "return smtp.deny()")
	case "deny-code":
		l = append(l, fmt.Sprintf("return smtp.deny(%d)", a.Code))
	case "deny-code-text":
		t := luaQ(a.Text)
		if a.EchoFrom {
			if sp.Stateful {
				t += ` .. " from=" .. cur_from`
			} else {
				t += ` .. " from=" .. session.from.address`
			}
		}
		if a.EchoLastTo {
			t += ` .. " to=" .. session.to[#session.to].address`
		}
		if a.EchoCount {
			t += ` .. " n=" .. #session.to`
		}
		l = append(l, fmt.Sprintf("return smtp.deny(%d, %s)", a.Code, t))
	case "nil":
		l = append(l, "return nil")
	case "nothing":
		l = append(l, "local unused = 1")
	case "garbage":
		l = append(l, "return "+luaSMTPGarbage[a.Form%len(luaSMTPGarbage)])
	case "error":
		l = append(l, luaErrorStmt(a.Form, "session", false))
	}
	return l
}

func luaStrList(l []string) string {
	q := make([]string, len(l))
	for i, s := range l {
		q[i] = luaQ(s)
	}
	return "{" + strings.Join(q, ", ") + "}"
}

func luaAddrList(l []string) string {
	q := make([]string, len(l))
	for i, s := range l {
		q[i] = fmt.Sprintf("address.new(%s, %s)", luaQ("Hook To"), luaQ(s))
	}
	return "{" + strings.Join(q, ", ") + "}"
}

func (sp *luaSpec) msgAnswer(a models.MsgAnswer) []string {
	var l []string
	if a.MutateTop {
		l = append(l, `msg.mailboxes = {"stolen"}`, `msg.subject = "tampered"`)
	}
	if a.MutateNested {
		l = append(l, "msg.from.address = "+luaQ(luaMutatedFrom))
	}
	obj := "msg"
	switch a.Kind {
	case "nil":
		return append(l, "return nil")
	case "false":
		return append(l, "return false")
	case "nothing":
		return append(l, "local unused = 1")
	case "garbage":
		return append(l, "return "+luaMsgGarbage[a.Form%len(luaMsgGarbage)])
	case "error":
		return append(l, luaErrorStmt(a.Form, "msg", true))
	case "fresh":
		obj = "res"
		l = append(l, "local res = inbound_message.new()")
	}
	if a.SetMailboxes {
		l = append(l, obj+".mailboxes = "+luaStrList(a.Mailboxes))
	}
	if a.SetSubject {
		if a.Kind == "edit" && a.SubjectAppend {
			l = append(l, "msg.subject = msg.subject .. "+luaQ(a.Subject))
		} else {
			l = append(l, obj+".subject = "+luaQ(a.Subject))
		}
	}
	if a.SetFrom {
		if a.Kind == "edit" && a.FromNested {
			l = append(l, "msg.from.address = "+luaQ(a.From))
		} else {
			l = append(l, fmt.Sprintf("%s.from = address.new(%s, %s)", obj, luaQ("Hook From"), luaQ(a.From)))
		}
	}
	if a.SetTo {
		l = append(l, obj+".to = "+luaAddrList(a.To))
	}
	return append(l, "return "+obj)
}

var luaAfterBodies = [][]string{
	nil,
	{`local s = msg.mailbox .. "/" .. msg.id .. " " .. msg.subject .. " " .. msg.size`},
	{`error("after boom")`},
	{`local a = msg.from.address`, `for i, t in ipairs(msg.to) do a = a .. t.address end`},
	{`return smtp.deny()`},
	{`msg.subject = "tampered"`, `msg.mailbox = "elsewhere"`, `return msg`},
	{`local t = nil`, `return t.x`},
}

func indent(l []string, p string) []string {
	var out []string
	for _, s := range l {
		for _, ln := range strings.Split(s, "\n") {
			out = append(out, p+ln)
		}
	}
	return out
}

func (sp *luaSpec) handler(b *strings.Builder, field, arg string, body []string) {
	switch sp.Style % 3 {
	case 0:
		fmt.Fprintf(b, "function inbucket.%s(%s)\n", field, arg)
	case 1:
		fmt.Fprintf(b, "inbucket.%s = function(%s)\n", field, arg)
	case 2:
		fmt.Fprintf(b, "local function h_%s(%s)\n", strings.ReplaceAll(field, ".", "_"), arg)
	}
	if sp.Stateful {
		b.WriteString("  count = count + 1\n  seen[#seen + 1] = tostring(count)\n")
		if arg == "session" {
			b.WriteString("  cur_from = session.from.address\n")
		}
	}
	b.WriteString(strings.Join(indent(body, "  "), "\n"))
	b.WriteString("\nend\n")
	if sp.Style%3 == 2 {
		fmt.Fprintf(b, "inbucket.%s = h_%s\n", field, strings.ReplaceAll(field, ".", "_"))
	}
	b.WriteString("\n")
}

func ifElse(cond string, then, els []string) []string {
	if cond == "true" {
		return then
	}
	l := []string{"if " + cond + " then"}
	l = append(l, indent(then, "  ")...)
	l = append(l, "else")
	l = append(l, indent(els, "  ")...)
	return append(l, "end")
}

// render produces the Lua source.
func (sp *luaSpec) render() string {
	var b strings.Builder
	b.WriteString("-- generated by the C17 harness\n")
	if sp.Stateful {
		b.WriteString("count = 0\nseen = {}\ncur_from = \"\"\n\n")
	}
	if h := sp.Mail; h != nil {
		sp.handler(&b, "before.mail_from_accepted", "session",
			ifElse(luaCond(h.If, "session"), sp.smtpAnswer(h.Then), sp.smtpAnswer(h.Else)))
	}
	if h := sp.Rcpt; h != nil {
		sp.handler(&b, "before.rcpt_to_accepted", "session",
			ifElse(luaCond(h.If, "session"), sp.smtpAnswer(h.Then), sp.smtpAnswer(h.Else)))
	}
	if h := sp.Msg; h != nil {
		sp.handler(&b, "before.message_stored", "msg",
			ifElse(luaCond(h.If, "msg"), sp.msgAnswer(h.Then), sp.msgAnswer(h.Else)))
	}
	if sp.AfterStored > 0 {
		sp.handler(&b, "after.message_stored", "msg", luaAfterBodies[sp.AfterStored%len(luaAfterBodies)])
	}
	if sp.AfterDeleted > 0 {
		sp.handler(&b, "after.message_deleted", "msg", luaAfterBodies[sp.AfterDeleted%len(luaAfterBodies)])
	}
	return b.String()
}

// ---- generation ----

var smtpAnswerKinds = []string{"nil", "deny-code-text", "allow", "defer", "error", "garbage", "deny", "deny-code", "nothing"}
var msgAnswerKinds = []string{"nil", "edit", "fresh", "error", "garbage", "false", "nothing"}

func genSMTPAnswer(w *simrt.Choices, rcpt bool, avoid map[string]bool) models.SMTPAnswer {
	a := models.SMTPAnswer{Kind: smtpAnswerKinds[w.Choose(len(smtpAnswerKinds))]}
	switch a.Kind {
	case "deny-code", "deny-code-text":
		a.Code = luaDenyCodes[w.Choose(len(luaDenyCodes))]
		if a.Kind == "deny-code-text" {
			a.Text = luaDenyTexts[w.Choose(len(luaDenyTexts))]
			e := w.Choose(4)
			a.EchoFrom = e&1 != 0
			if rcpt {
				a.EchoLastTo = e&2 != 0
				a.EchoCount = w.Choose(3) == 1
			}
		}
	case "garbage":
		a.Form = w.Choose(len(luaSMTPGarbage))
	case "error":
		a.Form = w.Choose(len(luaErrors))
	}
	if w.Choose(8) == 1 && !avoid["session-mutation"] {
		a.Mutate, a.EchoFrom = true, false
	}
	return a
}

func genCond(w *simrt.Choices, where string) models.Cond {
	switch where {
	case "mail":
		switch w.Choose(4) {
		case 1:
			return models.Cond{Kind: "from-prefix", Arg: "x"}
		case 2:
			return models.Cond{Kind: "from-contains", Arg: []string{"@bad.org", "@example.org", ".test"}[w.Choose(3)]}
		case 3:
			return models.Cond{Kind: "from-contains", Arg: []string{"0@", "1@"}[w.Choose(2)]}
		}
	case "rcpt":
		switch w.Choose(6) {
		case 1:
			return models.Cond{Kind: "from-prefix", Arg: "x"}
		case 2:
			return models.Cond{Kind: "last-to-prefix", Arg: "x"}
		case 3:
			return models.Cond{Kind: "last-to-contains", Arg: "@" + smtpDomains[w.Choose(len(smtpDomains))]}
		case 4:
			return models.Cond{Kind: "to-count-gt", N: 1 + w.Choose(2)}
		case 5:
			return models.Cond{Kind: "last-to-contains", Arg: "+"}
		}
	case "msg":
		switch w.Choose(5) {
		case 1:
			return models.Cond{Kind: "from-prefix", Arg: "x"}
		case 2:
			return models.Cond{Kind: "subject-contains", Arg: []string{"c0", "c1"}[w.Choose(2)]}
		case 3:
			return models.Cond{Kind: "to-count-gt", N: 1}
		case 4:
			return models.Cond{Kind: "from-contains", Arg: "1."}
		}
	}
	return models.Cond{Kind: "always"}
}

func genSMTPHook(w *simrt.Choices, where string, avoid map[string]bool) *models.SMTPHook {
	h := &models.SMTPHook{If: genCond(w, where)}
	h.Then = genSMTPAnswer(w, where == "rcpt", avoid)
	if h.If.Kind != "always" {
		h.Else = genSMTPAnswer(w, where == "rcpt", avoid)
	} else {
		h.Else = models.SMTPAnswer{Kind: "nil"}
	}
	return h
}

var luaHookBoxes = []string{"hookbox", "alice", "second", "bob", "example.com", "alice@example.com"}

func genMsgAnswer(w *simrt.Choices, avoid map[string]bool) models.MsgAnswer {
	a := models.MsgAnswer{Kind: msgAnswerKinds[w.Choose(len(msgAnswerKinds))]}
	switch a.Kind {
	case "edit", "fresh":
		f := 1 + w.Choose(15) // non-empty subset of the four fields
		a.SetMailboxes, a.SetSubject, a.SetFrom, a.SetTo = f&1 != 0, f&2 != 0, f&4 != 0, f&8 != 0
		if a.SetMailboxes {
			n := []int{1, 2, 3, 0}[w.Choose(4)] // distinct boxes; 0 = an explicitly empty list
			start := w.Choose(len(luaHookBoxes))
			for i := 0; i < n; i++ {
				a.Mailboxes = append(a.Mailboxes, luaHookBoxes[(start+i)%len(luaHookBoxes)])
			}
		}
		if a.SetSubject {
			a.Subject = []string{" [hook]", "rewritten by hook"}[w.Choose(2)]
			a.SubjectAppend = a.Subject[0] == ' '
			if a.Kind == "fresh" {
				a.SubjectAppend = false
			}
		}
		if a.SetFrom {
			a.From = "hook-from@hook.test"
			if a.Kind == "edit" && w.Choose(2) == 1 {
				a.FromNested, a.From = true, luaNestedFrom
			}
		}
		if a.SetTo {
			a.To = [][]string{{"to1@hook.test"}, {"to1@hook.test", "to2@hook.test"}, {}}[w.Choose(3)]
		}
	case "garbage":
		a.Form = w.Choose(len(luaMsgGarbage))
	case "error":
		a.Form = w.Choose(len(luaErrors) + len(luaMsgErrors))
	}
	if a.Kind != "edit" && a.Kind != "fresh" {
		switch w.Choose(5) {
		case 1:
			a.MutateTop = true
		case 2:
			a.MutateNested = !avoid["nested-mutation"]
		}
	}
	return a
}

func genMsgHook(w *simrt.Choices, avoid map[string]bool) *models.MsgHook {
	h := &models.MsgHook{If: genCond(w, "msg")}
	h.Then = genMsgAnswer(w, avoid)
	if h.If.Kind != "always" {
		h.Else = genMsgAnswer(w, avoid)
	} else {
		h.Else = models.MsgAnswer{Kind: "nil"}
	}
	return h
}

func genLuaSpec(w *simrt.Choices, avoid map[string]bool) luaSpec {
	var sp luaSpec
	which := w.Choose(32) // any subset of the five handlers
	if which == 0 {
		which = 1 + w.Choose(7) // an empty script is legal but dull: at least one before-handler
	}
	if which&1 != 0 {
		sp.Mail = genSMTPHook(w, "mail", avoid)
	}
	if which&2 != 0 {
		sp.Rcpt = genSMTPHook(w, "rcpt", avoid)
	}
	if which&4 != 0 {
		sp.Msg = genMsgHook(w, avoid)
	}
	if which&8 != 0 {
		sp.AfterStored = 1 + w.Choose(len(luaAfterBodies)-1)
	}
	if which&16 != 0 {
		sp.AfterDeleted = 1 + w.Choose(len(luaAfterBodies)-1)
	}
	sp.Style = w.Choose(3)
	sp.Stateful = w.Choose(3) == 1
	return sp
}
