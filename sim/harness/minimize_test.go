package harness

import (
	"fmt"
	"testing"
	"time"
)

// doMinimize shrinks the (W, S) choice lists of a failing run while the same
// violation class persists.  Passes: truncate S, zero chunks of S, delete and
// zero chunks of W, lower single values.  After every accepted candidate the
// lists are replaced by what the run actually consumed (normalisation).
func doMinimize(t *testing.T, p *Prop) {
	f := loadFailure(*fMinimize)
	class := f.Class
	budget := 45 * time.Second
	if *fBudgetMs > 0 {
		budget = time.Duration(*fBudgetMs) * time.Millisecond
	}
	start := time.Now()
	tries := 0
	W := append([]uint32{}, f.W...)
	S := append([]uint32{}, f.S...)
	var best Outcome
	haveBest := false

	over := func() bool { return time.Since(start) > budget }
	try := func(w, s []uint32) bool {
		if over() {
			return false
		}
		tries++
		o := replayOnce(t, p, f, w, s)
		if o.Viol != nil && o.Viol.Class == class {
			// normalise to what was consumed
			W = trimZeros(o.W)
			S = trimZeros(o.Res.S)
			best = o
			haveBest = true
			return true
		}
		return false
	}
	// baseline must reproduce
	if !try(W, S) {
		fmt.Printf("MINIMIZE not-reproducible class=%q\n", class)
		f.MinInfo = "original failure did not reproduce under replay"
		writeJSON(*fOut, f)
		return
	}
	w0, s0 := len(W), len(S)
	for round := 0; round < 6; round++ {
		progress := false
		// 1. truncate S (binary search on prefix length)
		lo, hi := 0, len(S)
		for lo < hi && time.Since(start) < budget {
			mid := (lo + hi) / 2
			if try(W, S[:mid]) {
				hi = len(S)
				if hi > mid {
					hi = mid
				}
				progress = true
			} else {
				lo = mid + 1
			}
		}
		// 1b. truncate W the same way
		lo, hi = 0, len(W)
		for lo < hi && !over() {
			mid := (lo + hi) / 2
			if try(W[:mid], S) {
				hi = len(W)
				if hi > mid {
					hi = mid
				}
				progress = true
			} else {
				lo = mid + 1
			}
		}
		// 2. zero chunks of S
		for size := len(S) / 2; size >= 1; size /= 2 {
			for i := 0; i+size <= len(S) && !over(); i += size {
				if allZero(S[i : i+size]) {
					continue
				}
				c := append([]uint32{}, S...)
				for j := i; j < i+size; j++ {
					c[j] = 0
				}
				if try(W, c) {
					progress = true
				}
			}
			if size > 64 {
				continue
			}
		}
		// 3. delete chunks of W
		for size := 16; size >= 1; size /= 2 {
			for i := 0; i+size <= len(W) && !over(); {
				c := append(append([]uint32{}, W[:i]...), W[i+size:]...)
				if try(c, S) {
					progress = true
				} else {
					i += size
				}
			}
		}
		// 4. zero / lower single values of W, then of S
		for i := 0; i < len(W) && !over(); i++ {
			if W[i] == 0 {
				continue
			}
			for _, v := range []uint32{0, W[i] / 2, W[i] - 1} {
				if v >= W[i] {
					continue
				}
				c := append([]uint32{}, W...)
				c[i] = v
				if try(c, S) {
					progress = true
					break
				}
			}
			if i >= len(W) {
				break
			}
		}
		for i := 0; i < len(S) && len(S) <= 400 && !over(); i++ {
			if S[i] == 0 {
				continue
			}
			c := append([]uint32{}, S...)
			c[i] = 0
			if try(W, c) {
				progress = true
			}
		}
		if !progress || time.Since(start) > budget {
			break
		}
	}
	if haveBest {
		nf := mkFailure(p, f.Tier, f.Seed, f.Run, f.Avoid, best)
		nf.W, nf.S = W, S
		nf.MinInfo = fmt.Sprintf("minimised in %d replays, %.1fs: W %d->%d, S %d->%d choices", tries, time.Since(start).Seconds(), w0, len(W), s0, len(S))
		// the log hash must be that of a replay of exactly (W,S)
		o := replayOnce(t, p, f, W, S)
		if o.Viol == nil || o.Viol.Class != class {
			nf = f
			nf.MinInfo = "minimised lists did not reproduce; original kept"
		} else {
			nf.LogHash = fmt.Sprintf("%016x", o.Res.LogHash)
			nf.Log = tail(o.Res.Log, 300)
			nf.Case = clip(o.Case.Describe(), 400)
		}
		writeJSON(*fOut, nf)
		fmt.Printf("MINIMIZE ok class=%q %s\n", class, nf.MinInfo)
	}
}

func trimZeros(l []uint32) []uint32 {
	n := len(l)
	for n > 0 && l[n-1] == 0 {
		n--
	}
	return append([]uint32{}, l[:n]...)
}

func allZero(l []uint32) bool {
	for _, v := range l {
		if v != 0 {
			return false
		}
	}
	return true
}
