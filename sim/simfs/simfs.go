// Package simfs replaces package os inside pkg/storage/file of the instrumented
// copy.  Under a simulation that installed an FS, every call operates on an
// in-memory tree; every mutating call is a numbered FS step and a scheduling
// point, and a hook may snapshot the tree before the step executes (crash
// model: process death - completed calls persist, the call in progress is
// absent or, for a write, present up to a chosen prefix).  Without an installed
// FS every function is the os function.
package simfs

import (
	"errors"
	"io"
	"io/fs"
	"os"
	"path/filepath"
	"sort"
	"strings"
	"syscall"
	"time"

	"github.com/inbucket/inbucket/v3/vsim/simrt"
)

// Re-exported names of package os used by file stores.
type (
	// FileInfo is os.FileInfo.
	FileInfo = fs.FileInfo
	// FileMode is os.FileMode.
	FileMode = fs.FileMode
	// PathError is os.PathError.
	PathError = fs.PathError
	// DirEntry is os.DirEntry.
	DirEntry = fs.DirEntry
)

// Constants and variables of package os.
const (
	O_RDONLY      = os.O_RDONLY
	O_WRONLY      = os.O_WRONLY
	O_RDWR        = os.O_RDWR
	O_APPEND      = os.O_APPEND
	O_CREATE      = os.O_CREATE
	O_EXCL        = os.O_EXCL
	O_SYNC        = os.O_SYNC
	O_TRUNC       = os.O_TRUNC
	PathSeparator = os.PathSeparator
	ModePerm      = os.ModePerm
	ModeDir       = os.ModeDir
)

// Errors of package os.
var (
	ErrNotExist   = os.ErrNotExist
	ErrExist      = os.ErrExist
	ErrPermission = os.ErrPermission
	ErrClosed     = os.ErrClosed
	ErrInvalid    = os.ErrInvalid
	Stderr        = os.Stderr
	Stdout        = os.Stdout
	Args          = os.Args
)

// IsNotExist is os.IsNotExist.
//
//go:norace
func IsNotExist(err error) bool { return os.IsNotExist(err) }

// IsExist is os.IsExist.
//
//go:norace
func IsExist(err error) bool { return os.IsExist(err) }

// Getenv is os.Getenv.
//
//go:norace
func Getenv(k string) string { return os.Getenv(k) }

// Getpid is os.Getpid.
//
//go:norace
func Getpid() int { return os.Getpid() }

// TempDir is os.TempDir.
//
//go:norace
func TempDir() string { return os.TempDir() }

// Getwd is os.Getwd.
//
//go:norace
func Getwd() (string, error) { return os.Getwd() }

// Exit is os.Exit.
//
//go:norace
func Exit(code int) { os.Exit(code) }

type node struct {
	dir      bool
	children map[string]*node
	data     []byte
	mode     FileMode
	mtime    time.Time
}

//go:norace
func (n *node) clone() *node {
	c := &node{dir: n.dir, mode: n.mode, mtime: n.mtime}
	if n.dir {
		c.children = make(map[string]*node, len(n.children))
		for k, v := range n.children {
			c.children[k] = v.clone()
		}
	} else {
		c.data = append([]byte(nil), n.data...)
	}
	return c
}

// Step describes a mutating call about to execute.
type Step struct {
	N    int    // step number (1-based)
	Kind string // create, write, remove, rmdir, mkdir, rename, truncate
	Path string
	Data []byte // for write: the bytes about to be appended/written
}

// FS is one simulated file-system tree.
type FS struct {
	root  *node
	Steps int
	// BeforeStep, if set, runs before each mutating call executes, in the
	// calling task's context with the token held.  It must not call into
	// this FS's mutating API.
	BeforeStep func(fsys *FS, st Step)
	// FailAt, if >0, makes the steps FailAt .. FailAt+FailLen-1 (FailLen 0 = one
	// step) fail with FailErr without taking effect (error injection: EIO, a
	// full disk).  FailKinds, if set, limits this to those kinds of step.
	FailAt    int
	FailLen   int
	FailErr   error
	FailKinds func(kind string) bool
	Fired     int // steps that failed by injection
	// SlowAt/SlowLen/SlowBy: the steps SlowAt .. SlowAt+SlowLen-1 each take SlowBy of
	// simulated time before they complete (a stalled disk).
	SlowAt  int
	SlowLen int
	SlowBy  time.Duration
	Stalled int // steps that were delayed
	// FailNextReadOpens: that many of the next opens of an existing regular file for reading
	// fail with ReadErr (e.g. EMFILE: the process is out of file descriptors for a moment)
	FailNextReadOpens int
	ReadErr           error
	Counts  map[string]int
}

// New returns an empty tree containing only "/".
//
//go:norace
func New() *FS {
	return &FS{root: &node{dir: true, children: map[string]*node{}, mode: 0o777 | fs.ModeDir}, Counts: map[string]int{}}
}

// Snapshot deep-copies the tree (hooks and counters are not copied).
//
//go:norace
func (f *FS) Snapshot() *FS {
	return &FS{root: f.root.clone(), Counts: map[string]int{}}
}

// AppendRaw appends data to the file at path in this tree, creating the file
// node if its parent exists (used to build partial-write crash states).
//
//go:norace
func (f *FS) AppendRaw(path string, off int64, data []byte) {
	dir, name := filepath.Split(clean(path))
	p := f.walk(dir)
	if p == nil || !p.dir {
		return
	}
	n := p.children[name]
	if n == nil {
		n = &node{mode: 0o666}
		p.children[name] = n
	}
	end := off + int64(len(data))
	if int64(len(n.data)) < end {
		n.data = append(n.data, make([]byte, end-int64(len(n.data)))...)
	}
	copy(n.data[off:], data)
}

// Dump lists every path with file sizes, sorted (diagnostics, evidence samples).
//
//go:norace
func (f *FS) Dump() []string {
	var out []string
	var rec func(p string, n *node)
	rec = func(p string, n *node) {
		if n.dir {
			if p != "/" {
				out = append(out, p+"/")
			}
			names := make([]string, 0, len(n.children))
			for k := range n.children {
				names = append(names, k)
			}
			sort.Strings(names)
			for _, k := range names {
				rec(strings.TrimSuffix(p, "/")+"/"+k, n.children[k])
			}
		} else {
			out = append(out, p+" "+itoa(len(n.data)))
		}
	}
	rec("/", f.root)
	return out
}

//go:norace
func itoa(i int) string {
	if i == 0 {
		return "0"
	}
	var b [20]byte
	p := len(b)
	for i > 0 {
		p--
		b[p] = byte('0' + i%10)
		i /= 10
	}
	return string(b[p:])
}

const valKey = "simfs"

// Install makes fsys the file system seen by instrumented code in sim.
//
//go:norace
func Install(s *simrt.Sim, fsys *FS) { s.SetVal(valKey, fsys) }

// Installed returns the FS installed in s, or nil.
//
//go:norace
func Installed(s *simrt.Sim) *FS {
	f, _ := s.Val(valKey).(*FS)
	return f
}

// cur returns the calling task and its FS; (nil,nil) means "use the real os".
//
//go:norace
func cur() (*simrt.Task, *FS) {
	t := simrt.Current()
	if t == nil {
		return nil, nil
	}
	f := Installed(t.Sim())
	if f == nil {
		return nil, nil
	}
	return t, f
}

//go:norace
func clean(p string) string {
	p = filepath.Clean("/" + p)
	return p
}

//go:norace
func (f *FS) walk(path string) *node {
	path = clean(path)
	n := f.root
	if path == "/" {
		return n
	}
	for _, part := range strings.Split(path[1:], "/") {
		if n == nil || !n.dir {
			return nil
		}
		n = n.children[part]
	}
	return n
}

// missErr is the error for a path that does not resolve: ENOTDIR if a proper
// prefix of it is a regular file, ENOENT otherwise.
//
//go:norace
//go:norace
func (f *FS) missErr(path string) error {
	path = clean(path)
	n := f.root
	if path == "/" {
		return syscall.ENOENT
	}
	for _, part := range strings.Split(path[1:], "/") {
		if n == nil {
			return syscall.ENOENT
		}
		if !n.dir {
			return syscall.ENOTDIR
		}
		n = n.children[part]
	}
	return syscall.ENOENT
}

//go:norace
func (f *FS) parent(path string) (*node, string) {
	path = clean(path)
	dir, name := filepath.Split(path)
	return f.walk(dir), name
}

//go:norace
func perr(op, path string, err error) error { return &PathError{Op: op, Path: path, Err: err} }

// step announces a mutating call: scheduling point, hook, error injection.
//
//go:norace
func (f *FS) step(t *simrt.Task, kind, path string, data []byte) error {
	t.Yield("fs " + kind)
	f.Steps++
	f.Counts[kind]++
	if f.BeforeStep != nil {
		f.BeforeStep(f, Step{N: f.Steps, Kind: kind, Path: clean(path), Data: data})
	}
	if f.injected(kind) {
		t.Sim().Count("fault.fs_error", 1)
		t.Sim().Count("fault.fs_error@"+kind, 1)
		return f.FailErr
	}
	f.stall(t)
	return nil
}

//go:norace
func (f *FS) stall(t *simrt.Task) {
	if f.SlowAt > 0 && f.Steps >= f.SlowAt && f.Steps < f.SlowAt+f.SlowLen && f.SlowBy > 0 {
		f.Stalled++
		t.Sim().Count("fault.fs_stall", 1)
		simrt.Sleep(f.SlowBy)
	}
}

//go:norace
func (f *FS) injected(kind string) bool {
	n := f.FailLen
	if n < 1 {
		n = 1
	}
	if f.FailAt > 0 && f.Steps >= f.FailAt && f.Steps < f.FailAt+n && (f.FailKinds == nil || f.FailKinds(kind)) {
		f.Fired++
		return true
	}
	return false
}

type fileInfo struct {
	name string
	n    *node
	size int64
}

//go:norace
func (fi fileInfo) Name() string { return fi.name }

//go:norace
func (fi fileInfo) Size() int64 { return fi.size }

//go:norace
func (fi fileInfo) Mode() FileMode {
	if fi.n.dir {
		return fi.n.mode | fs.ModeDir
	}
	return fi.n.mode
}

//go:norace
func (fi fileInfo) ModTime() time.Time { return fi.n.mtime }

//go:norace
func (fi fileInfo) IsDir() bool { return fi.n.dir }

//go:norace
func (fi fileInfo) Sys() interface{} { return nil }

// Stat is os.Stat.
//
//go:norace
func Stat(name string) (FileInfo, error) {
	t, f := cur()
	if f == nil {
		return os.Stat(name)
	}
	t.Yield("fs stat")
	n := f.walk(name)
	if n == nil {
		return nil, perr("stat", name, f.missErr(name))
	}
	return fileInfo{name: filepath.Base(name), n: n, size: int64(len(n.data))}, nil
}

// Lstat is os.Lstat.
//
//go:norace
func Lstat(name string) (FileInfo, error) {
	if _, f := cur(); f == nil {
		return os.Lstat(name)
	}
	return Stat(name)
}

// Mkdir is os.Mkdir.
//
//go:norace
func Mkdir(name string, perm FileMode) error {
	t, f := cur()
	if f == nil {
		return os.Mkdir(name, perm)
	}
	if err := f.step(t, "mkdir", name, nil); err != nil {
		return perr("mkdir", name, err)
	}
	return f.mkdir(name, perm)
}

//go:norace
func (f *FS) mkdir(name string, perm FileMode) error {
	p, base := f.parent(name)
	if p == nil || !p.dir {
		return perr("mkdir", name, f.missErr(name))
	}
	if _, ok := p.children[base]; ok {
		return perr("mkdir", name, syscall.EEXIST)
	}
	p.children[base] = &node{dir: true, children: map[string]*node{}, mode: perm, mtime: time.Now()}
	return nil
}

// MkdirAll is os.MkdirAll; each directory created is one step.
//
//go:norace
func MkdirAll(path string, perm FileMode) error {
	t, f := cur()
	if f == nil {
		return os.MkdirAll(path, perm)
	}
	path = clean(path)
	if n := f.walk(path); n != nil {
		if n.dir {
			return nil
		}
		return perr("mkdir", path, syscall.ENOTDIR)
	}
	parts := strings.Split(path[1:], "/")
	curp := ""
	for _, part := range parts {
		curp += "/" + part
		n := f.walk(curp)
		if n != nil {
			if !n.dir {
				return perr("mkdir", curp, syscall.ENOTDIR)
			}
			continue
		}
		if f.missErr(curp) == syscall.ENOTDIR {
			return perr("mkdir", curp, syscall.ENOTDIR)
		}
		if err := f.step(t, "mkdir", curp, nil); err != nil {
			return perr("mkdir", curp, err)
		}
		if n := f.walk(curp); n != nil { // created concurrently
			continue
		}
		if err := f.mkdir(curp, perm); err != nil {
			return err
		}
	}
	return nil
}

// Remove is os.Remove.
//
//go:norace
func Remove(name string) error {
	t, f := cur()
	if f == nil {
		return os.Remove(name)
	}
	kind := "remove"
	if n := f.walk(name); n != nil && n.dir {
		kind = "rmdir"
	}
	if err := f.step(t, kind, name, nil); err != nil {
		return perr("remove", name, err)
	}
	return f.remove(name)
}

//go:norace
func (f *FS) remove(name string) error {
	p, base := f.parent(name)
	if p == nil || !p.dir {
		return perr("remove", name, f.missErr(name))
	}
	n := p.children[base]
	if n == nil {
		return perr("remove", name, syscall.ENOENT)
	}
	if n.dir && len(n.children) > 0 {
		return perr("remove", name, syscall.ENOTEMPTY)
	}
	delete(p.children, base)
	return nil
}

// RemoveAll is os.RemoveAll, expanded into individual removes (each a step)
// in an order decided by the run's choice source.
//
//go:norace
func RemoveAll(path string) error {
	t, f := cur()
	if f == nil {
		return os.RemoveAll(path)
	}
	t.Yield("fs removeall")
	n := f.walk(path)
	if n == nil {
		if err := f.missErr(path); err == syscall.ENOTDIR {
			return perr("unlinkat", path, err)
		}
		return nil
	}
	var rec func(p string) error
	rec = func(p string) error {
		n := f.walk(p)
		if n == nil {
			return nil
		}
		if n.dir {
			names := f.orderedNames(t, n)
			for _, c := range names {
				if err := rec(p + "/" + c); err != nil {
					return err
				}
			}
			if err := f.step(t, "rmdir", p, nil); err != nil {
				return perr("unlinkat", p, err)
			}
			if f.walk(p) == nil {
				return nil
			}
			if err := f.remove(p); err != nil {
				// a concurrent create may have repopulated the directory;
				// os.RemoveAll retries, we report the error like it would
				// after retries are exhausted.
				return err
			}
			return nil
		}
		if err := f.step(t, "remove", p, nil); err != nil {
			return perr("unlinkat", p, err)
		}
		if f.walk(p) == nil {
			return nil
		}
		return f.remove(p)
	}
	return rec(clean(path))
}

//go:norace
func (f *FS) orderedNames(t *simrt.Task, n *node) []string {
	names := make([]string, 0, len(n.children))
	for k := range n.children {
		names = append(names, k)
	}
	sort.Strings(names)
	if len(names) > 1 {
		p := t.Sim().S.Perm(len(names))
		out := make([]string, len(names))
		for i, j := range p {
			out[i] = names[j]
		}
		t.Sim().Count("sched.dir_order_permuted", 1)
		return out
	}
	return names
}

// Rename is os.Rename.
//
//go:norace
func Rename(oldpath, newpath string) error {
	t, f := cur()
	if f == nil {
		return os.Rename(oldpath, newpath)
	}
	if err := f.step(t, "rename", oldpath+" -> "+clean(newpath), nil); err != nil {
		return &os.LinkError{Op: "rename", Old: oldpath, New: newpath, Err: err}
	}
	lerr := func(e error) error { return &os.LinkError{Op: "rename", Old: oldpath, New: newpath, Err: e} }
	// like the kernel: both parent directories are resolved before the last components
	op, ob := f.parent(oldpath)
	if op == nil || !op.dir {
		return lerr(f.missErr(oldpath))
	}
	np, nb := f.parent(newpath)
	if np == nil || !np.dir {
		return lerr(f.missErr(newpath))
	}
	if op.children[ob] == nil {
		return lerr(syscall.ENOENT)
	}
	if co, cn := clean(oldpath), clean(newpath); op.children[ob].dir && strings.HasPrefix(cn, co+"/") {
		return lerr(syscall.EINVAL)
	}
	src := op.children[ob]
	if dst := np.children[nb]; dst != nil {
		if dst.dir != src.dir {
			if dst.dir {
				return &os.LinkError{Op: "rename", Old: oldpath, New: newpath, Err: syscall.EISDIR}
			}
			return &os.LinkError{Op: "rename", Old: oldpath, New: newpath, Err: syscall.ENOTDIR}
		}
		if dst.dir && len(dst.children) > 0 {
			return &os.LinkError{Op: "rename", Old: oldpath, New: newpath, Err: syscall.ENOTEMPTY}
		}
	}
	delete(op.children, ob)
	np.children[nb] = src
	return nil
}

// File is os.File.
type File struct {
	real   *os.File
	fsys   *FS
	n      *node
	path   string
	off    int64
	flag   int
	closed bool
	dirPos int
	dirLst []string
}

// Create is os.Create.
//
//go:norace
func Create(name string) (*File, error) {
	return OpenFile(name, O_RDWR|O_CREATE|O_TRUNC, 0o666)
}

// Open is os.Open.
//
//go:norace
func Open(name string) (*File, error) { return OpenFile(name, O_RDONLY, 0) }

// OpenFile is os.OpenFile.
//
//go:norace
func OpenFile(name string, flag int, perm FileMode) (*File, error) {
	t, f := cur()
	if f == nil {
		rf, err := os.OpenFile(name, flag, perm)
		if err != nil {
			return nil, err
		}
		return &File{real: rf}, nil
	}
	mutating := flag&(O_CREATE|O_TRUNC) != 0
	if mutating {
		kind := "create"
		if n := f.walk(name); n != nil && flag&O_TRUNC != 0 {
			kind = "truncate"
		} else if n != nil {
			kind = "open"
		}
		if err := f.step(t, kind, name, nil); err != nil {
			return nil, perr("open", name, err)
		}
	} else {
		t.Yield("fs open")
		if f.FailNextReadOpens > 0 {
			if n := f.walk(name); n != nil && !n.dir {
				f.FailNextReadOpens--
				f.Fired++
				t.Sim().Count("fault.fs_error", 1)
				t.Sim().Count("fault.fs_error@open-for-reading", 1)
				return nil, perr("open", name, f.ReadErr)
			}
		}
	}
	n := f.walk(name)
	if n == nil {
		if flag&O_CREATE == 0 {
			return nil, perr("open", name, f.missErr(name))
		}
		p, base := f.parent(name)
		if p == nil || !p.dir {
			return nil, perr("open", name, f.missErr(name))
		}
		n = &node{mode: perm, mtime: time.Now()}
		p.children[base] = n
	} else {
		if flag&O_EXCL != 0 && flag&O_CREATE != 0 {
			return nil, perr("open", name, syscall.EEXIST)
		}
		if n.dir && flag&(O_WRONLY|O_RDWR) != 0 {
			return nil, perr("open", name, syscall.EISDIR)
		}
		if flag&O_TRUNC != 0 && !n.dir {
			n.data = nil
			n.mtime = time.Now()
		}
	}
	return &File{fsys: f, n: n, path: clean(name), flag: flag}, nil
}

// Name returns the name of the file.
//
//go:norace
func (f *File) Name() string {
	if f.real != nil {
		return f.real.Name()
	}
	return f.path
}

// Fd returns the real descriptor or an invalid one.
//
//go:norace
func (f *File) Fd() uintptr {
	if f.real != nil {
		return f.real.Fd()
	}
	return ^uintptr(0)
}

// Read implements io.Reader.
//
//go:norace
func (f *File) Read(p []byte) (int, error) {
	if f.real != nil {
		return f.real.Read(p)
	}
	if f.closed {
		return 0, perr("read", f.path, ErrClosed)
	}
	if f.n.dir {
		return 0, perr("read", f.path, syscall.EISDIR)
	}
	// a read is a system call: other tasks may run before it returns
	if t := simrt.Current(); t != nil {
		t.Yield("fs read")
	}
	if f.off >= int64(len(f.n.data)) {
		return 0, io.EOF
	}
	n := copy(p, f.n.data[f.off:])
	f.off += int64(n)
	return n, nil
}

// ReadAt implements io.ReaderAt.
//
//go:norace
func (f *File) ReadAt(p []byte, off int64) (int, error) {
	if f.real != nil {
		return f.real.ReadAt(p, off)
	}
	if f.closed {
		return 0, perr("read", f.path, ErrClosed)
	}
	if off >= int64(len(f.n.data)) {
		return 0, io.EOF
	}
	n := copy(p, f.n.data[off:])
	if n < len(p) {
		return n, io.EOF
	}
	return n, nil
}

// Write implements io.Writer; each call is one FS step.
//
//go:norace
func (f *File) Write(p []byte) (int, error) {
	if f.real != nil {
		return f.real.Write(p)
	}
	if f.closed {
		return 0, perr("write", f.path, ErrClosed)
	}
	if f.flag&(O_WRONLY|O_RDWR) == 0 {
		return 0, perr("write", f.path, syscall.EBADF)
	}
	t := simrt.Current()
	if t != nil {
		if f.flag&O_APPEND != 0 {
			f.off = int64(len(f.n.data))
		}
		if err := f.fsys.stepWrite(t, f, p); err != nil {
			return 0, perr("write", f.path, err)
		}
	}
	if f.flag&O_APPEND != 0 {
		f.off = int64(len(f.n.data))
	}
	end := f.off + int64(len(p))
	if int64(len(f.n.data)) < end {
		f.n.data = append(f.n.data, make([]byte, end-int64(len(f.n.data)))...)
	}
	copy(f.n.data[f.off:], p)
	f.off = end
	f.n.mtime = time.Now()
	return len(p), nil
}

// WriteOffset is the offset the next write lands at (for partial-write snapshots).
//
//go:norace
func (f *FS) stepWrite(t *simrt.Task, file *File, p []byte) error {
	t.Yield("fs write")
	f.Steps++
	f.Counts["write"]++
	if f.BeforeStep != nil {
		f.BeforeStep(f, Step{N: f.Steps, Kind: "write@" + itoa(int(file.off)), Path: file.path, Data: p})
	}
	if f.injected("write") {
		t.Sim().Count("fault.fs_error", 1)
		t.Sim().Count("fault.fs_error@write", 1)
		return f.FailErr
	}
	f.stall(t)
	return nil
}

// WriteString is like Write.
//
//go:norace
func (f *File) WriteString(s string) (int, error) { return f.Write([]byte(s)) }

// Seek implements io.Seeker.
//
//go:norace
func (f *File) Seek(offset int64, whence int) (int64, error) {
	if f.real != nil {
		return f.real.Seek(offset, whence)
	}
	switch whence {
	case io.SeekStart:
		f.off = offset
	case io.SeekCurrent:
		f.off += offset
	case io.SeekEnd:
		f.off = int64(len(f.n.data)) + offset
	}
	if f.off < 0 {
		f.off = 0
		return 0, perr("seek", f.path, syscall.EINVAL)
	}
	return f.off, nil
}

// Close closes the file.
//
//go:norace
func (f *File) Close() error {
	if f.real != nil {
		return f.real.Close()
	}
	if f.closed {
		return perr("close", f.path, ErrClosed)
	}
	f.closed = true
	return nil
}

// Sync is a no-op under simulation (process-death crash model).
//
//go:norace
func (f *File) Sync() error {
	if f.real != nil {
		return f.real.Sync()
	}
	if t := simrt.Current(); t != nil {
		t.Sim().Count("fs.sync", 1)
	}
	return nil
}

// Truncate changes the size of the file.
//
//go:norace
func (f *File) Truncate(size int64) error {
	if f.real != nil {
		return f.real.Truncate(size)
	}
	t := simrt.Current()
	if t != nil {
		if err := f.fsys.step(t, "truncate", f.path, nil); err != nil {
			return perr("truncate", f.path, err)
		}
	}
	if int64(len(f.n.data)) > size {
		f.n.data = f.n.data[:size]
	} else {
		f.n.data = append(f.n.data, make([]byte, size-int64(len(f.n.data)))...)
	}
	return nil
}

// Stat returns the FileInfo of the file.
//
//go:norace
func (f *File) Stat() (FileInfo, error) {
	if f.real != nil {
		return f.real.Stat()
	}
	return fileInfo{name: filepath.Base(f.path), n: f.n, size: int64(len(f.n.data))}, nil
}

//go:norace
func (f *File) listDir() error {
	if !f.n.dir {
		return perr("readdirent", f.path, syscall.ENOTDIR)
	}
	if f.dirLst == nil {
		t := simrt.Current()
		if t != nil {
			f.dirLst = f.fsys.orderedNames(t, f.n)
		} else {
			for k := range f.n.children {
				f.dirLst = append(f.dirLst, k)
			}
			sort.Strings(f.dirLst)
		}
		if f.dirLst == nil {
			f.dirLst = []string{}
		}
	}
	return nil
}

// Readdirnames is (*os.File).Readdirnames; the order is seeded.
//
//go:norace
func (f *File) Readdirnames(n int) ([]string, error) {
	if f.real != nil {
		return f.real.Readdirnames(n)
	}
	if f.closed {
		return nil, perr("readdirent", f.path, ErrClosed)
	}
	if err := f.listDir(); err != nil {
		return nil, err
	}
	rest := f.dirLst[f.dirPos:]
	if n <= 0 {
		f.dirPos = len(f.dirLst)
		return append([]string{}, rest...), nil
	}
	if len(rest) == 0 {
		return nil, io.EOF
	}
	if n > len(rest) {
		n = len(rest)
	}
	f.dirPos += n
	return append([]string{}, rest[:n]...), nil
}

type dirEntry struct{ fileInfo }

//go:norace
func (d dirEntry) Type() FileMode { return d.Mode().Type() }

//go:norace
func (d dirEntry) Info() (FileInfo, error) { return d.fileInfo, nil }

// ReadDir is (*os.File).ReadDir.
//
//go:norace
func (f *File) ReadDir(n int) ([]DirEntry, error) {
	if f.real != nil {
		return f.real.ReadDir(n)
	}
	names, err := f.Readdirnames(n)
	var out []DirEntry
	for _, nm := range names {
		if c := f.n.children[nm]; c != nil {
			out = append(out, dirEntry{fileInfo{name: nm, n: c, size: int64(len(c.data))}})
		}
	}
	return out, err
}

// Readdir is (*os.File).Readdir.
//
//go:norace
func (f *File) Readdir(n int) ([]FileInfo, error) {
	if f.real != nil {
		return f.real.Readdir(n)
	}
	names, err := f.Readdirnames(n)
	var out []FileInfo
	for _, nm := range names {
		if c := f.n.children[nm]; c != nil {
			out = append(out, fileInfo{name: nm, n: c, size: int64(len(c.data))})
		}
	}
	return out, err
}

// ReadDir is os.ReadDir (sorted by name, like os).
//
//go:norace
func ReadDir(name string) ([]DirEntry, error) {
	t, f := cur()
	if f == nil {
		return os.ReadDir(name)
	}
	t.Yield("fs readdir")
	n := f.walk(name)
	if n == nil {
		return nil, perr("open", name, syscall.ENOENT)
	}
	if !n.dir {
		return nil, perr("readdirent", name, syscall.ENOTDIR)
	}
	names := make([]string, 0, len(n.children))
	for k := range n.children {
		names = append(names, k)
	}
	sort.Strings(names)
	var out []DirEntry
	for _, nm := range names {
		c := n.children[nm]
		out = append(out, dirEntry{fileInfo{name: nm, n: c, size: int64(len(c.data))}})
	}
	return out, nil
}

// ReadFile is os.ReadFile.
//
//go:norace
func ReadFile(name string) ([]byte, error) {
	t, f := cur()
	if f == nil {
		return os.ReadFile(name)
	}
	t.Yield("fs readfile")
	n := f.walk(name)
	if n == nil {
		return nil, perr("open", name, f.missErr(name))
	}
	if n.dir {
		return nil, perr("read", name, syscall.EISDIR)
	}
	return append([]byte{}, n.data...), nil
}

// WriteFile is os.WriteFile (create/truncate step, then one write step).
//
//go:norace
func WriteFile(name string, data []byte, perm FileMode) error {
	if _, f := cur(); f == nil {
		return os.WriteFile(name, data, perm)
	}
	fl, err := OpenFile(name, O_WRONLY|O_CREATE|O_TRUNC, perm)
	if err != nil {
		return err
	}
	_, err = fl.Write(data)
	if err1 := fl.Close(); err1 != nil && err == nil {
		err = err1
	}
	return err
}

// Truncate is os.Truncate.
//
//go:norace
func Truncate(name string, size int64) error {
	if _, f := cur(); f == nil {
		return os.Truncate(name, size)
	}
	fl, err := OpenFile(name, O_WRONLY, 0)
	if err != nil {
		return err
	}
	return fl.Truncate(size)
}

// Chmod is os.Chmod (no-op under simulation).
//
//go:norace
func Chmod(name string, mode FileMode) error {
	if _, f := cur(); f == nil {
		return os.Chmod(name, mode)
	}
	return nil
}

// Chtimes is os.Chtimes.
//
//go:norace
func Chtimes(name string, atime, mtime time.Time) error {
	_, f := cur()
	if f == nil {
		return os.Chtimes(name, atime, mtime)
	}
	if n := f.walk(name); n != nil {
		n.mtime = mtime
		return nil
	}
	return perr("chtimes", name, syscall.ENOENT)
}

// MkdirTemp is os.MkdirTemp.
//
//go:norace
func MkdirTemp(dir, pattern string) (string, error) {
	if _, f := cur(); f == nil {
		return os.MkdirTemp(dir, pattern)
	}
	return "", errors.New("simfs: MkdirTemp not simulated")
}

// CreateTemp is os.CreateTemp; under simulation the name is deterministic.
//
//go:norace
func CreateTemp(dir, pattern string) (*File, error) {
	t, f := cur()
	if f == nil {
		rf, err := os.CreateTemp(dir, pattern)
		if err != nil {
			return nil, err
		}
		return &File{real: rf}, nil
	}
	if dir == "" {
		dir = "/tmp"
	}
	for i := 0; ; i++ {
		name := filepath.Join(dir, strings.Replace(pattern, "*", "", 1)+"."+itoa(int(t.Sim().Gen()))+"-"+itoa(f.Steps)+"-"+itoa(i))
		if strings.Contains(pattern, "*") {
			name = filepath.Join(dir, strings.Replace(pattern, "*", itoa(f.Steps)+"x"+itoa(i), 1))
		}
		fl, err := OpenFile(name, O_RDWR|O_CREATE|O_EXCL, 0o600)
		if err == nil {
			return fl, nil
		}
		if !IsExist(err) {
			return nil, err
		}
	}
}
