//go:debug asynctimerchan=0

package simfs_test

import (
	"fmt"
	"io"
	"os"
	"path/filepath"
	"sort"
	"strings"
	"testing"

	"github.com/inbucket/inbucket/v3/vsim/simfs"
	"github.com/inbucket/inbucket/v3/vsim/simrt"
	"github.com/inbucket/inbucket/v3/vsim/simrun"
)

// TestFidelity drives the simulated file system and the real one (a temp
// directory) with the same seeded operation sequences and requires the same
// results (success / kind of error / data / directory listings) and the same
// resulting tree.  It covers the subset of package os the file store (and a
// plausible repair of it) uses.
func TestFidelity(t *testing.T) {
	for seed := uint64(1); seed <= 300; seed++ {
		seed := seed
		real, err := os.MkdirTemp("", "simfs-fidelity-")
		if err != nil {
			t.Fatal(err)
		}
		var diffs []string
		simrun.Run(t, simrt.Config{NoJumps: true}, simrt.NewChoices(seed), func(mt *simrt.Task) {
			fsys := simfs.New()
			simfs.Install(mt.Sim(), fsys)
			if err := simfs.MkdirAll("/root", 0o770); err != nil {
				t.Error(err)
			}
			w := simrt.NewChoices(seed * 7919)
			names := []string{"a", "b", "a/x", "a/y", "a/x/f", "a/x/g", "b/f", "c/d/e", "c/d/e/f", "top"}
			note := func(op string, simErr, realErr error, extra string) {
				ks, kr := kind(simErr), kind(realErr)
				if strings.HasPrefix(op, "Rename") {
					// which of EISDIR / ENOTEMPTY / EEXIST a conflicting target yields is kernel detail
					conflict := map[string]bool{"isdir": true, "notempty": true, "exist": true}
					if conflict[ks] && conflict[kr] {
						return
					}
				}
				if ks != kr {
					diffs = append(diffs, fmt.Sprintf("seed %d %s: sim err %v, real err %v %s", seed, op, simErr, realErr, extra))
				}
			}
			for i := 0; i < 60; i++ {
				n := names[w.Choose(len(names))]
				sp, rp := "/root/"+n, filepath.Join(real, n)
				switch w.Choose(10) {
				case 0:
					note("MkdirAll "+n, simfs.MkdirAll(sp, 0o770), os.MkdirAll(rp, 0o770), "")
				case 1:
					note("Mkdir "+n, simfs.Mkdir(sp, 0o770), os.Mkdir(rp, 0o770), "")
				case 2:
					data := []byte(strings.Repeat("x", w.Choose(5000)))
					sf, se := simfs.Create(sp)
					rf, re := os.Create(rp)
					note("Create "+n, se, re, "")
					if se == nil && re == nil {
						_, se = sf.Write(data)
						_, re = rf.Write(data)
						note("Write "+n, se, re, "")
						note("Close "+n, sf.Close(), rf.Close(), "")
					} else {
						if se == nil {
							sf.Close()
						}
						if re == nil {
							rf.Close()
						}
					}
				case 3:
					note("Remove "+n, simfs.Remove(sp), os.Remove(rp), "")
				case 4:
					note("RemoveAll "+n, simfs.RemoveAll(sp), os.RemoveAll(rp), "")
				case 5:
					_, se := simfs.Stat(sp)
					_, re := os.Stat(rp)
					note("Stat "+n, se, re, "")
				case 6:
					sf, se := simfs.Open(sp)
					rf, re := os.Open(rp)
					note("Open "+n, se, re, "")
					if se == nil && re == nil {
						sn, se2 := sf.Readdirnames(0)
						rn, re2 := rf.Readdirnames(0)
						sort.Strings(sn)
						sort.Strings(rn)
						note("Readdirnames "+n, se2, re2, "")
						if se2 == nil && re2 == nil && strings.Join(sn, ",") != strings.Join(rn, ",") {
							diffs = append(diffs, fmt.Sprintf("seed %d Readdirnames %s: sim %v real %v", seed, n, sn, rn))
						}
						if se2 != nil && re2 != nil {
							sb, se3 := io.ReadAll(sf)
							rb, re3 := io.ReadAll(rf)
							note("Read "+n, se3, re3, "")
							if string(sb) != string(rb) {
								diffs = append(diffs, fmt.Sprintf("seed %d Read %s: %d vs %d bytes", seed, n, len(sb), len(rb)))
							}
						}
					}
					if se == nil {
						sf.Close()
					}
					if re == nil {
						rf.Close()
					}
				case 7:
					n2 := names[w.Choose(len(names))]
					if fi, err := os.Stat(rp); err == nil && fi.IsDir() {
						break // renaming directories is not used by the file store and not modelled in detail
					}
					note("Rename "+n+"->"+n2, simfs.Rename(sp, "/root/"+n2), os.Rename(rp, filepath.Join(real, n2)), "")
				case 8:
					sb, se := simfs.ReadFile(sp)
					rb, re := os.ReadFile(rp)
					note("ReadFile "+n, se, re, "")
					if se == nil && re == nil && string(sb) != string(rb) {
						diffs = append(diffs, fmt.Sprintf("seed %d ReadFile %s differs", seed, n))
					}
				case 9:
					data := []byte(strings.Repeat("y", w.Choose(300)))
					note("WriteFile "+n, simfs.WriteFile(sp, data, 0o660), os.WriteFile(rp, data, 0o660), "")
				}
			}
			// same resulting tree
			var realTree []string
			filepath.Walk(real, func(p string, info os.FileInfo, err error) error {
				if err != nil || p == real {
					return nil
				}
				rel := "/root/" + filepath.ToSlash(strings.TrimPrefix(p, real+string(os.PathSeparator)))
				if info.IsDir() {
					realTree = append(realTree, rel+"/")
				} else {
					realTree = append(realTree, fmt.Sprintf("%s %d", rel, info.Size()))
				}
				return nil
			})
			sort.Strings(realTree)
			var simTree []string
			for _, l := range fsys.Dump() {
				if l != "/root/" {
					simTree = append(simTree, l)
				}
			}
			sort.Strings(simTree)
			if strings.Join(simTree, "\n") != strings.Join(realTree, "\n") {
				diffs = append(diffs, fmt.Sprintf("seed %d trees differ:\nsim:  %v\nreal: %v", seed, simTree, realTree))
			}
		})
		os.RemoveAll(real)
		for _, d := range diffs {
			t.Error(d)
		}
		if len(diffs) > 0 {
			return
		}
	}
}

// kind classifies an error the way callers of package os do.
func kind(err error) string {
	switch {
	case err == nil:
		return "ok"
	case os.IsNotExist(err):
		return "notexist"
	case os.IsExist(err):
		return "exist"
	}
	s := err.Error()
	switch {
	case strings.Contains(s, "not a directory"):
		return "notdir"
	case strings.Contains(s, "is a directory"):
		return "isdir"
	case strings.Contains(s, "not empty"):
		return "notempty"
	case strings.Contains(s, "invalid argument"):
		return "invalid"
	}
	return "other:" + s
}
