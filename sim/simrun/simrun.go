// Package simrun enters a synctest bubble and runs one simulation in it.
package simrun

import (
	"fmt"
	"strings"
	"testing"
	"testing/synctest"

	"github.com/inbucket/inbucket/v3/vsim/simrt"
)

func init() { simrt.WaitQuiescent = synctest.Wait }

// Run executes mainFn as the main task of a fresh simulation inside a fresh
// bubble and returns the scheduler's result.  Harness panics outside tasks are
// re-raised (they are machinery bugs, exit code 2, never a violation).
func Run(t *testing.T, cfg simrt.Config, S *simrt.Choices, mainFn func(t *simrt.Task)) (res *simrt.Result) {
	var s *simrt.Sim
	var rootPanic interface{}
	// A sub-test per run: in a -race binary the testing package fails the
	// (sub-)test on any report and synctest.Test then calls FailNow, which must
	// not take the worker loop down with it.
	t.Run("sim", func(st *testing.T) {
		defer func() {
			if r := recover(); r != nil {
				msg := fmt.Sprint(r)
				if strings.Contains(msg, "deadlock:") {
					if strings.Contains(msg, "all goroutines in bubble are blocked") && s != nil && res == nil {
						s.MarkDeadlock()
						res = s.Snapshot()
					}
					return
				}
				rootPanic = r
			}
		}()
		synctest.Test(st, func(t *testing.T) {
			defer func() {
				if r := recover(); r != nil {
					rootPanic = r
				}
			}()
			s = simrt.New(cfg, S)
			res = s.Run(mainFn)
		})
	})
	if rootPanic != nil {
		panic(fmt.Sprintf("simulator root panic: %v", rootPanic))
	}
	if res == nil {
		panic("simulator: run ended without a result")
	}
	return res
}
